"""C18 — DXIL output is a well-formed, self-consistent container with sound bitcode.

Deciding method: Coq theorems (Props/C18.v) over models of the bit-level writer
(dxil/internal/bitcode/writer.go), the DXBC container writer and the hash code
(dxil/internal/container/{container,hash}.go), plus a reader/parser for both
formats with round-trip and soundness theorems.  Ties to /repo, every run:
  R  constants regenerated from the Go sources (Gen/DxilConsts.v) with vm_compute
     obligations (Dxil/GenObligations.v): abbreviation ids, FourCCs, stage kinds,
     the 64 MD5 steps, program-header stores, LLVM block ids / record codes;
  C  byte-exact correspondence of the extracted model with the Go code on generated
     writer operation sequences, container part lists, hash inputs (hooks in
     dxil/verif_hooks_c18.go, tool harness/cmd/dxildrive);
  V  the extracted, verified reader/parser run on the bytes dxil.Compile really
     returns (corpus shaders + generated programs x shader models x options):
     container layout, digest (retail hash recomputed in Coq, or BYPASS), HASH part,
     program headers vs stage / shader model, bitstream parse, operand indices,
     signature / PSV0 part structure, determinism."""
import json
import os
import resource
import time
from concurrent.futures import ThreadPoolExecutor

import dxilgen
import gen
import nagarun
import ocamlbuild
import vcheck

LEVEL = "proof"

MODEL_FILES = ["Dxil/BitsModel.v", "Dxil/BitsProofs.v", "Dxil/BitstreamModel.v", "Dxil/BitstreamProofs.v",
               "Dxil/WriterProofs.v", "Dxil/DxbcModel.v", "Dxil/DxbcProofs.v", "Dxil/Md5Model.v", "Dxil/Md5Table.v",
               "Dxil/MetaModel.v", "Dxil/MetaProofs.v", "Dxil/CheckModel.v", "Dxil/CheckProofs.v",
               "Dxil/GenObligations.v", "Dxil/Bitstream.v", "Dxil/Dxbc.v"]

STAGE_KIND = {"vertex": 1, "fragment": 0, "compute": 5, "mesh": 13, "task": 14}


def run_model_parallel(exe, values, workers=None):
    """the extracted tool on many inputs, split over processes"""
    if not values:
        return []
    workers = max(1, min(workers or max(2, vcheck.NCPU - 2), len(values)))
    idx = [list(range(k, len(values), workers)) for k in range(workers)]
    out = [None] * len(values)

    def go(ix):
        return ix, vcheck.run_model(exe, [values[i] for i in ix])
    with ThreadPoolExecutor(workers) as ex:
        for ix, res in ex.map(go, idx):
            for i, r in zip(ix, res):
                out[i] = r
    return out


SITE_KEYS = ("sig:psv-vectors:", "sig:psv-elements-missing:")


def final_key(k, where):
    """keys that already name a site stay as they are; the others get the program appended"""
    return k if k.startswith(SITE_KEYS) else "%s:%s" % (k, where)


def capped_violation(ctx, cls, what, files, key, cap=3):
    """ctx.violation, but at most `cap` replay directories per class of violation (a seeded defect shows in hundreds of
    programs of a systematic family); the rest is counted in the evidence"""
    seen = ctx.cov.setdefault("violations_per_class", {})
    if seen.get(cls, 0) >= cap:
        seen[cls] += 1
        return None
    r = ctx.violation(what, files=files, key=key)
    if r is not False:           # a listed known finding does not use up the budget of its class
        seen[cls] = seen.get(cls, 0) + 1
    return r


# ------------------------------------------------------------------ C: writer operations

def go_bitcode(tools, seqs):
    jobs = [{"id": i, "data": {"aw": str(aw), "ops": ops}} for i, (aw, ops) in enumerate(seqs)]
    return nagarun.parallel_batches(tools["dxildrive"], "bitcode", jobs, per_job_timeout=10.0, chunk=200)


def writer_mismatch(go, mo):
    """projected observables: panic-or-not, final bytes, Len() after every op"""
    go_fail = go is None or "panic" in go or "crash" in go or "err" in go
    if not mo.get("ok"):
        return None if go_fail else "model says the writer panics or hangs, Go returned bytes"
    if go_fail:
        return "Go failed (%s), model returns bytes" % ((go or {}).get("panic") or (go or {}).get("crash") or (go or {}).get("err"))
    gb = list(bytes.fromhex(go["hex"]))
    if gb != mo["bytes"]:
        n = next((i for i in range(min(len(gb), len(mo["bytes"]))) if gb[i] != mo["bytes"][i]), min(len(gb), len(mo["bytes"])))
        return "bytes differ at offset %d (Go %d bytes, model %d bytes)" % (n, len(gb), len(mo["bytes"]))
    if list(go["lens"]) != list(mo["lens"]):
        return "Len() after ops differs"
    return None


def shrink_ops(tools, exe, aw, ops):
    """greedy removal of ops while Go and the model still disagree"""
    cur = list(ops)
    changed = True
    while changed and len(cur) > 1:
        changed = False
        for i in range(len(cur)):
            cand = cur[:i] + cur[i + 1:]
            g = go_bitcode(tools, [(aw, cand)]).get(0)
            m = vcheck.run_model(exe, [{"mode": "run", "aw": aw, "ops": dxilgen.ops_for_model(cand)}])[0]
            if writer_mismatch(g, m):
                cur = cand
                changed = True
                break
    return cur


def tie_writer(ctx, tools, exe, n):
    rng = ctx.rng.fork("writer")
    seqs = [dxilgen.op_sequence(rng.fork("s%d" % i)) for i in range(n)]
    go = go_bitcode(tools, seqs)
    mo = run_model_parallel(exe, [{"mode": "run", "aw": aw, "ops": dxilgen.ops_for_model(ops)} for aw, ops in seqs])
    bad = []
    hist = {}
    nontrivial = set()
    panics = 0
    for i, (aw, ops) in enumerate(seqs):
        for o in ops:
            hist[o[0]] = hist.get(o[0], 0) + 1
        if any(o[0] in ("enter", "vbr", "record", "blob") for o in ops):
            nontrivial.add(json.dumps((aw, ops)))
        if not mo[i].get("ok"):
            panics += 1
        why = writer_mismatch(go.get(i), mo[i])
        if why:
            bad.append((i, why))
    ctx.cov["writer_correspondence"] = {"sequences": n, "mismatches": len(bad), "op_histogram": hist,
                                        "panic_or_hang_cases_agreeing": panics, "distinct_nontrivial": len(nontrivial)}
    broken = None
    if bad:
        i, why = bad[0]
        aw, ops = seqs[i]
        small = shrink_ops(tools, exe, aw, ops)
        broken = ("writer correspondence (model of bitcode/writer.go vs Go) fails on %d of %d op sequences; first: %s; "
                  "minimised: aw=%d ops=%s" % (len(bad), n, why, aw, json.dumps(small)))
        ctx.cov["first_writer_mismatch"] = {"why": why, "aw": aw, "ops": small}
    # trees through machine, abstract encoder and reader (executable cross-check of the theorems)
    trees = []
    for i in range(max(20, n // 20)):
        r = rng.fork("t%d" % i)
        trees.append(random_tree(r, 0, [3 + r.below(25)]))
    res = run_model_parallel(exe, [{"mode": "enc", "tree": [t]} for t in trees])
    tree_bad = [(t, r) for t, r in zip(trees, res)
                if not (r.get("ok") and r.get("agree") and (r.get("roundtrip") or {}).get("ok") and (r["roundtrip"].get("tree") == [t]))]
    ctx.cov["tree_roundtrips_executed"] = {"trees": len(trees), "failures": len(tree_bad)}
    if tree_bad and not broken:
        broken = "extracted model contradicts c18_writer_reader_roundtrip on tree %s" % json.dumps(tree_bad[0][0])[:400]
    return len(nontrivial), broken


def random_tree(r, depth, budget):
    items = []
    for _ in range(1 + r.below(5)):
        if budget[0] <= 0:
            break
        budget[0] -= 1
        if depth < 4 and r.chance(1, 3):
            items.append(random_tree(r, depth + 1, budget))
        else:
            items.append(["R", r.below(64) if r.chance(3, 4) else dxilgen.vbr_value(r, 6),
                          [dxilgen.vbr_value(r, 6) for _ in range(r.below(8))]])
    return ["B", r.below(32) if r.chance(3, 4) else dxilgen.vbr_value(r, 8), r.range(2, 32) if r.chance(1, 4) else r.range(2, 6), items]


# ------------------------------------------------------------------ C: container, hash, scalars

def tie_container(ctx, tools, exe, n):
    rng = ctx.rng.fork("container")
    cases = [dxilgen.container_parts(rng.fork("c%d" % i)) for i in range(n)]
    jobs = [{"id": i, "data": {"parts": p, "post": post}} for i, (p, post) in enumerate(cases)]
    go = nagarun.parallel_batches(tools["dxildrive"], "container", jobs, per_job_timeout=10.0, chunk=100)
    mo = run_model_parallel(exe, [{"mode": "container", "parts": dxilgen.parts_for_model(p), "post": post} for p, post in cases])
    bad = []
    good_bytes = []
    for i, (p, post) in enumerate(cases):
        g = go.get(i) or {}
        if "hex" not in g or not mo[i].get("ok"):
            bad.append((i, "Go: %s / model: %s" % (str(g)[:200], str(mo[i])[:100])))
            continue
        gb = list(bytes.fromhex(g["hex"]))
        if gb != mo[i]["bytes"]:
            k = next((j for j in range(min(len(gb), len(mo[i]["bytes"]))) if gb[j] != mo[i]["bytes"][j]), -1)
            bad.append((i, "container bytes differ at offset %d (Go %d bytes, model %d)" % (k, len(gb), len(mo[i]["bytes"]))))
        else:
            good_bytes.append((i, gb))
    # the verified parser on Go's containers: accepted, and re-serialises to the same bytes
    pr = run_model_parallel(exe, [{"mode": "parse", "bytes": b} for _, b in good_bytes[:max(50, n // 4)]])
    parse_bad = [(i, r) for (i, _), r in zip(good_bytes, pr) if not (r.get("ok") and r.get("rebuilt_equal"))]
    ctx.cov["container_correspondence"] = {"part_lists": n, "mismatches": len(bad), "parsed_back": len(pr), "parse_failures": len(parse_bad)}
    broken = None
    if bad:
        i, why = bad[0]
        broken = "container correspondence (model of container.go/hash.go vs Go) fails on %d of %d part lists; first: %s; parts=%s post=%s" % (
            len(bad), n, why, json.dumps(cases[i][0])[:600], cases[i][1])
        ctx.cov["first_container_mismatch"] = {"why": why, "parts": cases[i][0], "post": cases[i][1]}
    elif parse_bad:
        broken = "the verified DXBC parser rejects a container built by Container.Bytes (part list %s)" % json.dumps(cases[parse_bad[0][0]][0])[:600]
    return n - len(bad), broken


def tie_hash(ctx, tools, exe, n_random):
    rng = ctx.rng.fork("hash")
    datas = dxilgen.hash_inputs(rng, n_random)
    go = nagarun.parallel_batches(tools["dxildrive"], "hash", [{"id": i, "data": {"hex": d.hex()}} for i, d in enumerate(datas)],
                                  per_job_timeout=10.0, chunk=200)
    mo = run_model_parallel(exe, [{"mode": "hash", "bytes": list(d)} for d in datas])
    bad = []
    for i, d in enumerate(datas):
        g = go.get(i) or {}
        if bytes(mo[i]["retail"]).hex() != g.get("retail"):
            bad.append((i, "retail hash (hash.go retailMD5) differs for a %d-byte input" % len(d)))
        elif bytes(mo[i]["md5"]).hex() != g.get("md5"):
            bad.append((i, "MD5 (crypto/md5, used for the HASH part) differs from the model for a %d-byte input" % len(d)))
    # scalar encoders
    sv = [0, 1, -1, 2, -2, 63, -64, 2 ** 31, -2 ** 31, 2 ** 62, -2 ** 62, 2 ** 63 - 1, -2 ** 63 + 1, -2 ** 63] + \
         [rng.range(-2 ** 63, 2 ** 63 - 1) for _ in range(200)]
    rc, gs, se = vcheck.jsonl_tool(tools["dxildrive"], ["scalar"], [{"id": 0, "data": {"signed": [str(v) for v in sv], "char6": list(range(256))}}])
    ms = vcheck.run_model(exe, [{"mode": "scalar", "signed": sv, "char6": list(range(256))}])[0]
    sc_bad = None
    if not gs or [int(x) for x in gs[0].get("signed", [])] != ms["signed"]:
        sc_bad = "EncodeSignedVBR differs between Go and model"
    elif gs[0].get("char6") != ms["char6"]:
        sc_bad = "EncodeChar6/IsChar6String differs between Go and model"
    elif ms["signed_back"] != sv:
        sc_bad = "extracted decode_signed_vbr (encode_signed_vbr v) <> v"
    ctx.cov["hash_correspondence"] = {"inputs": len(datas), "mismatches": len(bad), "signed_vbr_values": len(sv), "char6_bytes": 256,
                                      "scalar_mismatch": sc_bad}
    broken = None
    if bad:
        broken = "hash correspondence fails on %d of %d inputs; first: %s (input hex %s)" % (len(bad), len(datas), bad[0][1], datas[bad[0][0]].hex()[:200])
    elif sc_bad:
        broken = sc_bad
    return len(datas) - len(bad), broken


# ------------------------------------------------------------------ V: real compiler output

def compile_jobs(ctx, tier_programs, configs_per_program):
    """(id, src, opts) for corpus shaders and generated programs"""
    rng = ctx.rng.fork("compile")
    jobs = []
    meta = {}
    jid = 0
    corpus = nagarun.corpus()
    if not ctx.thorough:
        # quick tier: the shaders that exercise special paths always, plus a seeded sample of the rest
        always = {"f16.wgsl", "mesh-shader.wgsl", "barycentrics.wgsl", "clip-distances.wgsl", "debug-symbol-simple.wgsl", "boids.wgsl", "shadow.wgsl", "atomicOps.wgsl", "control-flow.wgsl", "collatz.wgsl"}
        rest = rng.fork("subset").shuffle([c for c in corpus if c[0] not in always])[:40]
        corpus = [c for c in corpus if c[0] in always] + rest
    all_cfg = [(sm, byp, bm) for sm in range(7) for byp in (False, True) for bm in (0, 1, 2)]
    for name, src in corpus:
        cfgs = all_cfg if configs_per_program >= len(all_cfg) else rng.fork(name).shuffle(all_cfg)[:configs_per_program]
        for sm, byp, bm in cfgs:
            jobs.append({"id": jid, "src": src, "opts": {"sm_minor": sm, "bypass": byp, "bindmap": bm}})
            meta[jid] = ("corpus:" + name, src, sm, byp, bm)
            jid += 1
    # several helpers that stay separate LLVM functions (scalar parameters and result, control flow in the body), all
    # called: the order in which functions, their types and their blocks are emitted must not depend on map iteration;
    # compiled `repeat` more times (a map-ordered emission of 4 functions repeats one order with probability 1/24)
    for k, stage in enumerate(("fragment", "compute")):
        hs = "".join("fn h%d(a: f32, b: f32) -> f32 { var r = a * %d.5; if (a > b) { r = r + b; } else { r = r - %d.0; } "
                     "for (var i = 0; i < %d; i++) { if (r > 100.0) { break; } r = r * 1.5; } return r; }\n" % (n, n + 1, n, n + 2) for n in range(4))
        if stage == "fragment":
            src = hs + ("@fragment fn main(@location(0) v: vec4<f32>) -> @location(0) vec4<f32> {\n"
                        "  return vec4<f32>(h0(v.x, v.y), h1(v.y, v.z), h2(v.z, v.w), h3(v.w, v.x) + h1(v.x, v.x));\n}\n")
        else:
            src = ("@group(0) @binding(0) var<storage, read_write> o: array<f32, 8>;\n" + hs
                   + "@compute @workgroup_size(1) fn main() {\n  o[0] = h3(o[1], o[2]) + h2(o[2], o[3]);\n  o[4] = h1(o[5], o[6]) * h0(o[6], o[7]);\n}\n")
        for sm, byp in ((0, False), (6, True)):
            jobs.append({"id": jid, "src": src, "opts": {"sm_minor": sm, "bypass": byp, "bindmap": 0, "repeat": 8}})
            meta[jid] = ("hand:four_helpers_%s" % stage, src, sm, byp, 0)
            jid += 1
    sizes = [2, 5, 10, 20, 40, 80, 150, 300, 600]
    for i in range(tier_programs):
        r = rng.fork("g%d" % i)
        stage, src = dxilgen.wgsl_program(r, sizes[i % len(sizes)] if ctx.thorough else sizes[i % 7])
        sm, byp, bm = r.below(7), r.chance(1, 3), r.below(3)
        jobs.append({"id": jid, "src": src, "opts": {"sm_minor": sm, "bypass": byp, "bindmap": bm}})
        meta[jid] = ("gen:%d:%s" % (i, stage), src, sm, byp, bm)
        jid += 1
    return jobs, meta


def expect_report(rep, stage, sm, bypass, entry=None):
    """compare the Coq checker's report with what was requested; list of (key, text)"""
    bad = []
    if not rep.get("ok"):
        return [("dxbc-structure", "bytes are not a canonical DXBC container (magic, version, file size, part count, "
                                   "offset table, contiguous in-bounds parts): " + str(rep.get("err")))]
    if not rep["order_ok"]:
        bad.append(("part-order", "unexpected part list %s" % [int(p[0]).to_bytes(4, "little").decode("latin1") for p in rep["parts"]]))
    want = "bypass" if bypass else "retail"
    if rep["digest"] != want:
        bad.append(("digest", "container digest is '%s', expected '%s' (retail hash recomputed over bytes 20..end by the Coq model)" % (rep["digest"], want)))
    if not rep["hash_part_ok"]:
        bad.append(("hash-part", "HASH part body is not flags(0) ++ MD5(bitcode)"))
    if not rep["sfi0_ok"]:
        bad.append(("sfi0", "SFI0 part is not 8 bytes"))
    dx = rep.get("dxil")
    if not dx:
        bad.append(("program-header", "DXIL part missing or its program header is inconsistent (magic, offset 16, sizes, version)"))
    else:
        if dx["kind"] != STAGE_KIND.get(stage, -1):
            bad.append(("program-kind", "program header shader kind %d does not match stage %s" % (dx["kind"], stage)))
        if dx["major"] != 6 or dx["minor"] < sm or dx["minor"] > 9 or dx["dxil_minor"] != dx["minor"]:
            bad.append(("program-version", "program header shader model %d.%d / DXIL 1.%d vs requested 6.%d" % (dx["major"], dx["minor"], dx["dxil_minor"], sm)))
    if not rep["stat_same_bitcode"]:
        bad.append(("stat-part", "STAT part program header/bitcode differs from the DXIL part"))
    st = rep["stream"]
    if not st.get("ok"):
        bad.append(("bitstream:" + json.dumps(st.get("err")), "DXIL bitcode does not parse: %s at bit %s" % (json.dumps(st.get("err")), st.get("pos"))))
    mt = rep.get("meta")
    if mt is not None and not mt.get("ok"):
        bad.append(("meta:" + str(mt.get("err")), "operand index check failed: %s %s" % (mt.get("err"), json.dumps(mt.get("at"))[:300])))
    sg = rep.get("sig")
    if sg is not None and not sg.get("ok"):
        bad.append(sig_rule_key(sg.get("err"), rep.get("sigs"), stage, None))
    pv = rep.get("psv")
    if pv and entry is not None and bytes(pv["entry"]).decode("latin1") != entry:
        bad.append(("psv-entry-name", "PSV0 entry function name %r differs from the entry point %r" % (bytes(pv["entry"]).decode("latin1"), entry)))
    return bad


def classify_difference(exe, h1, h2):
    """stable class of a difference between two outputs for the same input"""
    if len(h1) != len(h2):
        return "length"
    r = vcheck.run_model(exe, [{"mode": "check", "bytes": list(bytes.fromhex(h)), "want_tree": True} for h in (h1, h2)])
    try:
        t1, t2 = r[0]["stream"]["tree"], r[1]["stream"]["tree"]
    except Exception:
        return "unparsed"
    where = set()
    phi = [False]

    def walk(a, b, inside):
        if a == b:
            return
        if a[0] == "B" and b[0] == "B" and a[1:3] == b[1:3] and len(a[3]) == len(b[3]):
            for x, y in zip(a[3], b[3]):
                walk(x, y, a[1])
        elif a[0] == "R" and b[0] == "R" and a[1] == b[1] and len(a[2]) == len(b[2]):
            where.add(inside)
            if a[1] == 16:
                phi[0] = True
        else:
            where.add("shape")
    if len(t1) != len(t2):
        return "shape"
    for x, y in zip(t1, t2):
        walk(x, y, "top")
    if where == {12} and phi[0]:
        return "function-block-phi-order"
    return "blocks:" + ",".join(str(w) for w in sorted(where, key=str))


def report_history(ctx, exe, name, e, files):
    """the three history monitors of one entry point: the caller's module is unchanged by dxil.Compile (deep snapshot before /
    after each call), compiling the same ir.Module value twice gives the same bytes, and both agree with a compile of a freshly
    lowered module.  Returns the number of violations reported."""
    n = 0
    if e.get("ir_mutated"):
        # keyed by the kind of IR node that changed (path of Go type / field names), not by the program
        site = str(e.get("mutated_site")).replace("/Statement.Kind", "").replace("/Module.", "/")
        n += capped_violation(ctx, "caller-ir-mutated", "dxil.Compile modified the caller's ir.Module (%s compile; first difference at %s): %s entry %s" % (
                                  e.get("mutated_by"), e.get("mutated_where"), name, e["name"]),
                              dict(files, **{"mutation.json": json.dumps({k: e.get(k) for k in ("mutated_by", "mutated_where", "mutated_site")}, indent=1)}),
                              "recompile-same-module:caller-ir-mutated:" + site) is True
    if e.get("deterministic") is False:
        cls = classify_difference(exe, e["hex"], e["hex_fresh"]) if "hex_fresh" in e else "error:" + str(e.get("fresh_err"))[:60]
        f2 = dict(files)
        if "hex_fresh" in e:
            f2["second.dxbc"] = bytes.fromhex(e["hex_fresh"])
        n += ctx.violation("output not deterministic: %s entry %s compiled twice from freshly lowered modules gives different bytes (%s)" % (name, e["name"], cls),
                           files=f2, key="nondeterministic-output:" + cls) is True
    if e.get("same_module_again") is False:
        cls = classify_difference(exe, e["hex"], e["hex_again"]) if "hex_again" in e else "error:" + str(e.get("again_err"))[:60]
        f2 = dict(files)
        if "hex_again" in e:
            f2["second.dxbc"] = bytes.fromhex(e["hex_again"])
        if e.get("ir_mutated"):
            # consequence of the mutation reported above: same site key, so one defect is one finding
            site = str(e.get("mutated_site")).replace("/Statement.Kind", "").replace("/Module.", "/")
            n += capped_violation(ctx, "recompile-after-mutation", "compiling the same ir.Module value a second time gives different bytes (%s) after dxil.Compile "
                                  "modified it at %s: %s entry %s" % (cls, e.get("mutated_where"), name, e["name"]),
                                  f2, "recompile-same-module:caller-ir-mutated:" + site) is True
        elif not (cls == "function-block-phi-order" and e.get("deterministic") is False):
            n += ctx.violation("compiling the same ir.Module value a second time gives different bytes (%s): %s entry %s" % (cls, name, e["name"]),
                               files=f2, key="recompile-same-module:" + cls) is True
    elif e.get("again_equals_fresh") is False and e.get("deterministic") is not False:
        n += ctx.violation("the second compile of a re-used ir.Module differs from the compile of a freshly lowered module: %s entry %s" % (name, e["name"]),
                           files=files, key="recompile-same-module:differs-from-fresh") is True
    return n


def tie_recompile(ctx, tools, exe, n_check):
    """history monitors on the systematic family of nested control flow with promotable locals (dxilgen.nest_programs):
    every container x nested statement x local kind, entry point and helper function"""
    progs = dxilgen.nest_programs()
    jobs = [{"id": i, "src": src, "opts": {"sm_minor": i % 7, "bypass": True, "bindmap": 0}} for i, (key, stage, src) in enumerate(progs)]
    res = nagarun.parallel_batches(tools["dxildrive"], "compile", jobs, per_job_timeout=60.0, chunk=24)
    stats = {"programs": len(progs), "frontend_rejected": 0, "invalid_modules": 0, "backend_errors": 0, "entry_points_compiled_3x": 0,
             "violating_checks": 0}
    rejected = []
    err_kinds = {}
    items = []
    distinct = set()
    for j in jobs:
        key, stage, src = progs[j["id"]]
        r = res.get(j["id"])
        if r is None or "crash" in r:
            ctx.violation("dxildrive crashed (%s) compiling %s" % ((r or {}).get("crash"), key), files={"input.wgsl": src}, key="crash:" + key)
            continue
        if "eps" not in r:
            stats["frontend_rejected"] += 1
            rejected.append((key, str(r.get("err"))[:160]))
            continue
        if not r.get("valid", True):
            stats["invalid_modules"] += 1
        for e in r["eps"]:
            if "hex" not in e:
                stats["backend_errors"] += 1
                k = e.get("err", "")[:60]
                err_kinds[k] = err_kinds.get(k, 0) + 1
                if e.get("err", "").startswith("panic:"):
                    ctx.violation("dxil.Compile panicked instead of returning an error: %s (%s)" % (e["err"][:300], key),
                                  files={"input.wgsl": src, "options.json": json.dumps(dict(j["opts"], entry=e["name"]))}, key="compile-panic:%s@%s" % (e["err"][7:60], e.get("panic_site", "?")))
                continue
            stats["entry_points_compiled_3x"] += 1
            distinct.add(e["hex"][40:])
            files = {"input.wgsl": src, "options.json": json.dumps(dict(j["opts"], entry=e["name"])), "actual.dxbc": bytes.fromhex(e["hex"])}
            stats["violating_checks"] += report_history(ctx, exe, key, e, files)
            items.append((j, key, e))
    # a slice also goes through the whole-container checker
    full = items[::max(1, len(items) // max(1, n_check))]
    for (j, key, e), rep in zip(full, run_model_parallel(exe, [{"mode": "check", "bytes": list(bytes.fromhex(e["hex"]))} for _, _, e in full])):
        for k, text in expect_report(rep, e["stage"], j["opts"]["sm_minor"], True, e["name"]):
            stats["violating_checks"] += 1
            ctx.violation("%s entry point %s (stage %s): %s" % (key, e["name"], e["stage"], text),
                          files={"input.wgsl": progs[j["id"]][2], "options.json": json.dumps(dict(j["opts"], entry=e["name"])), "actual.dxbc": bytes.fromhex(e["hex"])},
                          key=final_key(k, key))
    stats["whole_container_checked"] = len(full)
    stats["frontend_rejected_examples"] = rejected[:5]
    stats["backend_error_kinds"] = dict(sorted(err_kinds.items(), key=lambda x: -x[1])[:8])
    stats["distinct_outputs"] = len(distinct)
    ctx.cov["recompile"] = stats
    return len(items), len(distinct)


def tie_real_output(ctx, tools, exe, n_gen, cfgs):
    jobs, meta = compile_jobs(ctx, n_gen, cfgs)
    res = nagarun.parallel_batches(tools["dxildrive"], "compile", jobs, per_job_timeout=60.0, chunk=12)
    items = []        # (jid, ep result)
    stats = {"jobs": len(jobs), "frontend_rejected": 0, "backend_errors": 0, "containers": 0, "crashes": 0,
             "by_sm": {}, "by_stage": {}, "bypass": 0, "bindmap": 0, "invalid_modules_compiled": 0}
    err_kinds = {}
    for j in jobs:
        r = res.get(j["id"])
        name, src, sm, byp, bm = meta[j["id"]]
        if r is None or "crash" in r:
            stats["crashes"] += 1
            ctx.violation("dxildrive crashed (%s) compiling %s for SM 6.%d" % ((r or {}).get("crash"), name, sm),
                          files={"input.wgsl": src, "options.json": json.dumps(j["opts"])}, key="crash:" + name)
            continue
        if "eps" not in r:
            stats["frontend_rejected"] += 1
            continue
        for e in r["eps"]:
            if "hex" not in e:
                stats["backend_errors"] += 1
                k = e.get("err", "")[:60]
                err_kinds[k] = err_kinds.get(k, 0) + 1
                if e.get("err", "").startswith("panic:"):
                    ctx.violation("dxil.Compile panicked instead of returning an error: %s (%s entry %s, SM 6.%d)" % (e["err"][:300], name, e["name"], sm),
                                  files={"input.wgsl": src, "options.json": json.dumps(j["opts"])}, key="compile-panic:%s@%s" % (e["err"][7:60], e.get("panic_site", "?")))
                continue
            stats["containers"] += 1
            stats["by_sm"][sm] = stats["by_sm"].get(sm, 0) + 1
            stats["by_stage"][e["stage"]] = stats["by_stage"].get(e["stage"], 0) + 1
            stats["bypass"] += 1 if byp else 0
            stats["bindmap"] += 1 if bm else 0
            if not r.get("valid", True):
                stats["invalid_modules_compiled"] += 1
            items.append((j["id"], e))
    reports = run_model_parallel(exe, [{"mode": "check", "bytes": list(bytes.fromhex(e["hex"]))} for _, e in items])
    distinct = set()
    sizes = []
    recs = []
    nviol = 0
    for (jid, e), rep in zip(items, reports):
        name, src, sm, byp, bm = meta[jid]
        distinct.add(e["hex"][40:])
        sizes.append(len(e["hex"]) // 2)
        if rep.get("ok") and rep["stream"].get("ok"):
            recs.append(rep["stream"]["records"])
        files = {"input.wgsl": src, "options.json": json.dumps({"sm_minor": sm, "bypass": byp, "bindmap": bm, "entry": e["name"]}),
                 "actual.dxbc": bytes.fromhex(e["hex"]), "report.json": json.dumps(rep, indent=1)[:200000]}
        for key, text in expect_report(rep, e["stage"], sm, byp, e["name"]):
            nviol += 1
            ctx.violation("%s entry point %s (stage %s, SM 6.%d, bypass=%s, bindmap=%d): %s" % (name, e["name"], e["stage"], sm, byp, bm, text),
                          files=files, key=key if key.startswith(SITE_KEYS) else ("%s:%s" % (key, e["stage"])) if key.startswith("sig:PSV0 declares primitive")
                          else "%s:%s:%s" % (key, name, e["name"]))
        if len(ctx.cov["samples"]) < 4 and rep.get("ok"):
            ctx.sample({"program": name, "entry": e["name"], "sm": "6.%d" % sm, "bytes": len(e["hex"]) // 2,
                        "parts": [int(p[0]).to_bytes(4, "little").decode("latin1") + ":%d" % p[1] for p in rep["parts"]],
                        "digest": rep["digest"], "records": rep["stream"].get("records"), "blocks": rep["stream"].get("blocks")})
        report_history(ctx, exe, name, e, files)
    stats["backend_error_kinds"] = dict(sorted(err_kinds.items(), key=lambda x: -x[1])[:8])
    stats["distinct_outputs"] = len(distinct)
    if sizes:
        stats["container_bytes"] = {"min": min(sizes), "max": max(sizes), "total": sum(sizes)}
    if recs:
        stats["records_per_module"] = {"min": min(recs), "max": max(recs)}
    stats["violating_checks"] = nviol
    ctx.cov["real_output"] = stats
    return len(items), len(distinct)


# ------------------------------------------------------------------ V: stage interfaces (PSV0 vs ISG1/OSG1), systematic

def sig_problems(rep, stage):
    """(key, text) for a report of the extractor's "sig" mode"""
    if not rep.get("ok"):
        return [("dxbc-structure", "bytes are not a canonical DXBC container: " + str(rep.get("err")))]
    bad = []
    if not rep["order_ok"]:
        bad.append(("part-order", "unexpected part list %s" % [int(p[0]).to_bytes(4, "little").decode("latin1") for p in rep["parts"]]))
    dx = rep.get("dxil")
    if not dx or dx["kind"] != STAGE_KIND.get(stage, -1):
        bad.append(("program-kind", "program header missing or its shader kind does not match stage %s" % stage))
    sg = rep.get("sig")
    if sg is not None and not sg.get("ok"):
        bad.append(sig_rule_key(sg.get("err"), rep.get("sigs"), stage, None))
    return bad


def sig_rule_key(err, sigs, stage, where):
    """(stable key, text) of a failed signature rule.  The two vector-count rules are keyed by their site - direction,
    stage, semantic kind of the element that reaches the highest row, declared count above / below that row - so that
    one defect is one key whatever program shows it; the other rules are keyed by the program (`where`, appended by the caller)."""
    text = "signature / PSV0 part inconsistent: %s" % err
    for d, field, label in (("ins", "vin", "SigInputVectors"), ("outs", "vouts", "SigOutputVectors")):
        if sigs and str(err).startswith("PSV0 %s is not" % label):
            els = [e for e in sigs.get(d) or [] if e["allocated"] and (d == "ins" or e["stream"] == 0)]
            top = max([e["start_row"] + e["rows"] for e in els] + [0])
            top_kind = ([e["kind"] for e in els if e["start_row"] + e["rows"] == top] or [-1])[-1]
            declared = sigs["vin"] if d == "ins" else sigs["vouts"][0]
            return ("sig:psv-vectors:%s:%s:top-kind%d:%s" % (d[:-1], stage, top_kind, "above" if declared > top else "below"),
                    text + " (declared %d, elements reach row %d: %s)" % (
                        declared, top, ", ".join("kind %d row %d+%d cols %d@%d" % (e["kind"], e["start_row"], e["rows"], e["cols"], e["start_col"]) for e in els)))
    if str(err) == "PSV0 declares more signature elements than it stores":
        # one defect (a signature element the PSV0 builder has no semantic for), one key per stage
        return ("sig:psv-elements-missing:" + stage, text + " (ISG1 has %d element(s), OSG1 %d)" % (
            len((sigs or {}).get("isg") or []), len((sigs or {}).get("osg") or [])))
    return ("sig:" + str(err) + (":" + where if where else ""), text)


def packing_profile(sigs, direction):
    """what the packing of one signature exercised: rows revisited (an element lands in a row below the one a
    previous element took), shared rows, whether the last allocated element sits below the top row"""
    els = [e for e in (sigs or {}).get(direction) or [] if e["allocated"]]
    rows = [e["start_row"] for e in els]
    revisit = any(rows[i] < max(rows[:i]) for i in range(1, len(rows)))
    shared = len(set(rows)) < len(rows)
    last_below_top = bool(rows) and rows[-1] < max(rows)
    return revisit, shared, last_below_top


def tie_interfaces(ctx, tools, exe, n_random):
    """every sequence over {scalar, vec2, vec3, vec4} of length 1..4 as the @location inputs and outputs of a vertex
    and of a fragment entry point, without and with the builtins behind them (1360 entry points, not sampled), plus
    n_random sampled modules with mixed scalar kinds / interpolation groups / declaration orders: the verified
    container parser and the PSV0-vs-ISG1/OSG1 consistency rules on what dxil.Compile returns"""
    rng = ctx.rng.fork("iface")
    mods = dxilgen.iface_modules()
    jobs = []
    meta = {}
    for src, entries in mods:
        jid = len(jobs)
        jobs.append({"id": jid, "src": src, "opts": {"sm_minor": 0, "bypass": True, "bindmap": 0, "once": True}})
        meta[jid] = (src, dict(entries))
    for i in range(n_random):
        r = rng.fork("m%d" % i)
        src, names = dxilgen.iface_random_module(r)
        jid = len(jobs)
        jobs.append({"id": jid, "src": src, "opts": {"sm_minor": r.below(7), "bypass": True, "bindmap": 0, "once": True}})
        meta[jid] = (src, {n: "iface-random:%d:%s" % (i, n) for n in names})
    res = nagarun.parallel_batches(tools["dxildrive"], "compile", jobs, per_job_timeout=60.0, chunk=6)
    items = []
    stats = {"modules": len(jobs), "entry_points": sum(len(m[1]) for m in meta.values()), "systematic_entry_points": sum(len(e) for _, e in mods),
             "containers": 0, "frontend_rejected": 0, "invalid_modules": 0, "backend_errors": 0, "by_stage": {},
             "signatures_with_revisited_row": 0, "signatures_with_shared_row": 0, "signatures_last_element_below_top_row": 0,
             "elements_compared": 0, "unallocated_elements": 0}
    err_kinds = {}
    for j in jobs:
        r = res.get(j["id"])
        src, names = meta[j["id"]]
        if r is None or "crash" in r:
            ctx.violation("dxildrive crashed (%s) compiling an interface module" % (r or {}).get("crash"), files={"input.wgsl": src},
                          key="crash:" + sorted(names.values())[0])
            continue
        if "eps" not in r:
            stats["frontend_rejected"] += 1
            ctx.cov.setdefault("iface_frontend_errors", [])
            if len(ctx.cov["iface_frontend_errors"]) < 3:
                ctx.cov["iface_frontend_errors"].append(str(r.get("err"))[:200])
            continue
        if not r.get("valid", True):
            stats["invalid_modules"] += 1
        for e in r["eps"]:
            key = names.get(e["name"], "iface:?")
            if "hex" not in e:
                stats["backend_errors"] += 1
                k = e.get("err", "")[:60]
                err_kinds[k] = err_kinds.get(k, 0) + 1
                if e.get("err", "").startswith("panic:"):
                    ctx.violation("dxil.Compile panicked instead of returning an error: %s (%s entry %s)" % (e["err"][:300], key, e["name"]),
                                  files={"input.wgsl": src, "options.json": json.dumps(dict(j["opts"], entry=e["name"]))},
                                  key="compile-panic:%s@%s" % (e["err"][7:60], e.get("panic_site", "?")))
                continue
            items.append((j, key, e))
    reports = run_model_parallel(exe, [{"mode": "sig", "bytes": list(bytes.fromhex(e["hex"]))} for _, _, e in items])
    distinct = set()
    nviol = 0
    for (j, key, e), rep in zip(items, reports):
        src = meta[j["id"]][0]
        stats["containers"] += 1
        stats["by_stage"][e["stage"]] = stats["by_stage"].get(e["stage"], 0) + 1
        sigs = rep.get("sigs") or {}
        for d in ("ins", "outs"):
            rv, sh, lb = packing_profile(sigs, d)
            stats["signatures_with_revisited_row"] += rv
            stats["signatures_with_shared_row"] += sh
            stats["signatures_last_element_below_top_row"] += lb
            stats["elements_compared"] += len(sigs.get(d) or [])
            stats["unallocated_elements"] += sum(1 for x in sigs.get(d) or [] if not x["allocated"])
        distinct.add(json.dumps([sigs.get(k) for k in ("vin", "vouts", "ins", "outs", "isg", "osg")]))
        for k, text in sig_problems(rep, e["stage"]):
            nviol += 1
            capped_violation(ctx, k, "%s entry point %s (stage %s): %s" % (key, e["name"], e["stage"], text),
                             {"input.wgsl": src, "options.json": json.dumps(dict(j["opts"], entry=e["name"], mode="sig")),
                              "actual.dxbc": bytes.fromhex(e["hex"]), "report.json": json.dumps(rep, indent=1)[:200000]},
                             final_key(k, key))
    # a slice of the sweep also goes through the whole-container checker (digest, HASH, bitstream, operand indices)
    step = max(1, len(items) // ctx.scale(40, 400))
    full = items[::step]
    for (j, key, e), rep in zip(full, run_model_parallel(exe, [{"mode": "check", "bytes": list(bytes.fromhex(e["hex"]))} for _, _, e in full])):
        for k, text in expect_report(rep, e["stage"], j["opts"]["sm_minor"], True, e["name"]):
            nviol += 1
            ctx.violation("%s entry point %s (stage %s): %s" % (key, e["name"], e["stage"], text),
                          files={"input.wgsl": meta[j["id"]][0], "options.json": json.dumps(dict(j["opts"], entry=e["name"])),
                                 "actual.dxbc": bytes.fromhex(e["hex"])}, key=final_key(k, key))
    stats["whole_container_checked"] = len(full)
    stats["backend_error_kinds"] = dict(sorted(err_kinds.items(), key=lambda x: -x[1])[:8])
    stats["distinct_signature_layouts"] = len(distinct)
    stats["violating_checks"] = nviol
    ctx.cov["interfaces"] = stats
    return len(items), len(distinct)


# ------------------------------------------------------------------ replay

def replay(ctx, tools, exe):
    d = ctx.replay
    src = open(os.path.join(d, "input.wgsl"), encoding="utf-8", errors="surrogateescape").read()
    o = json.load(open(os.path.join(d, "options.json")))
    rc, res, se = vcheck.jsonl_tool(tools["dxildrive"], ["compile"], [{"id": 0, "src": src, "opts": {k: o[k] for k in ("sm_minor", "bypass", "bindmap") if k in o}}])
    for e in (res[0].get("eps") or []) if res else []:
        if o.get("entry") and e["name"] != o["entry"]:
            continue
        if "hex" not in e:
            print("entry %s: backend error %s" % (e["name"], e.get("err")))
            continue
        rep = vcheck.run_model(exe, [{"mode": "check", "bytes": list(bytes.fromhex(e["hex"]))}])[0]
        probs = expect_report(rep, e["stage"], o.get("sm_minor", 0), o.get("bypass", False))
        for key, text in probs:
            ctx.violation("replay %s entry %s: %s" % (d, e["name"], text), files={"input.wgsl": src, "options.json": json.dumps(o)}, key=key + ":replay")
        nh = report_history(ctx, exe, "replay " + d, e, {"input.wgsl": src, "options.json": json.dumps(o)})
        print("replayed %s entry %s: %d problem(s)" % (d, e["name"], len(probs) + nh))


# ------------------------------------------------------------------ run

def run(ctx):
    tools = vcheck.build_harness(["goextract", "dxildrive"])
    ok, failed, log = vcheck.proof_step(
        ctx, "Props/C18.v", MODEL_FILES, gen_writer=lambda: gen.regenerate(tools, ["dxil"]),
        extra_obligation_files=["Dxil/GenObligations.v"])
    ctx.cov["trusted_base"] += [
        "translator: harness/cmd/goextract (go/ast) + gen.py gen_dxil -> coq/Gen/DxilConsts.v (const blocks, md5Transform body parsed by regular expression, "
        "program-header stores as source text, FourCC/stage kinds computed by the compiled package through harness/cmd/dxildrive consts)",
        "extraction: ExtrOcamlBasic only; Z/positive/nat/string kept as Coq datatypes; generic JSON driver ocaml/common/driver.ml; OCaml 4.13.1",
        "correspondence harness: harness/cmd/dxildrive + add-only hooks /repo/dxil/verif_hooks_c18.go (VerifBitcodeRun, VerifContainerBuild, VerifRetailHash, ...), lib/dxilgen.py, checks/c18.py",
        "my transcription of the LLVM 3.7 bitstream format (abbreviation ids 0-3, ENTER_SUBBLOCK [vbr8 id, vbr4 width, align32, 32-bit word count], "
        "UNABBREV_RECORD [vbr6 code, vbr6 n, n x vbr6], END_BLOCK + align32), of the DXBC container header/part table, of RFC 1321 MD5 (checked against the RFC test suite in Coq) "
        "and of INF-0004 retail hashing as hash.go implements it (no dxil.dll / dxc available to cross-check)",
        "modelled: bitcode/writer.go in full, container.go in full, hash.go in full; module/serialize.go only as the record layouts the index checker reads; "
        "NOT modelled: dxil/internal/emit (what the records mean), signature.go/psv.go beyond the structural part checker",
    ]
    ctx.assumptions = [
        "block bodies shorter than 2^32 words and containers shorter than 4 GiB (the Go code's own //nolint assumptions) are hypotheses of the round-trip theorems",
        "determinism is observed by compiling twice in one process (two fresh lowerings and one re-use of the same ir.Module); cross-process/-race histories belong to C12",
        "signature and pipeline-state parts are checked structurally (sizes, offsets, string table bounds, counts vs PSV0 runtime info), not against the entry point's interface semantics",
    ]
    broken = None
    if not ok:
        broken = "Coq development no longer checks: %s" % (failed or log[-800:])
    exe = None
    try:
        exe = ocamlbuild.build("dxil")
    except Exception as ex:      # extraction depends on the Coq build
        if not broken:
            broken = "extraction of the DXIL model failed: %s" % str(ex)[-600:]
    evaluations = 0
    nontrivial = 0
    if exe:
        if getattr(ctx, "replay", None):
            replay(ctx, tools, exe)
            return
        phases = ctx.cov.setdefault("phase_seconds", {})

        def cpu():
            a, b = resource.getrusage(resource.RUSAGE_SELF), resource.getrusage(resource.RUSAGE_CHILDREN)
            return a.ru_utime + a.ru_stime + b.ru_utime + b.ru_stime

        def timed(name, f, *a):
            t0, c0 = time.time(), cpu()
            r = f(ctx, tools, exe, *a)
            phases[name] = {"wall": round(time.time() - t0, 1), "cpu": round(cpu() - c0, 1)}
            return r
        n1, b1 = timed("writer", tie_writer, ctx.scale(600, 60000))
        n2, b2 = timed("container", tie_container, ctx.scale(120, 8000))
        n3, b3 = timed("hash", tie_hash, ctx.scale(20, 3000))
        ncont, ndist = timed("real_output", tie_real_output, ctx.scale(21, 900), ctx.scale(1, 14))
        nif, ndif = timed("interfaces", tie_interfaces, ctx.scale(24, 2000))
        nrc, ndrc = timed("recompile", tie_recompile, ctx.scale(24, 578))
        ncont += nif + nrc
        ndist += ndif + ndrc
        evaluations = ctx.cov["writer_correspondence"]["sequences"] + ctx.cov["container_correspondence"]["part_lists"] + \
            ctx.cov["hash_correspondence"]["inputs"] + ncont
        nontrivial = n1 + n2 + n3 + ndist
        ctx.cov["traces_validated_against_impl"] = n1 + n2 + n3
        for b in (b1, b2, b3):
            if b and not broken:
                broken = b
    ctx.cov["evaluations"] = evaluations
    ctx.cov["distinct_nontrivial"] = nontrivial
    ctx.cov["rule"] = ("writer op sequences distinct by content and containing at least one VBR/record/block op; container part lists and hash inputs agreeing "
                       "byte for byte; real containers distinct by bytes after the digest (each contains a DXIL part with a bitstream, i.e. exercises every anchor)")
    if broken and not ctx.violations:
        ctx.violation(broken + "\n(no malformed container was produced by dxil.Compile on the corpus / generated programs in this run)",
                      found_input=False, broken=broken, files={"detail.json": json.dumps({k: ctx.cov.get(k) for k in
                                                                                        ("first_writer_mismatch", "first_container_mismatch")}, indent=1, default=str)})
    elif broken:
        ctx.cov["broken_tie"] = broken
