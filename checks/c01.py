"""C01 — SPIR-V output computes what the WGSL program means.

Deciding method: Coq lemmas, for ALL 32-bit operands, that the SPIR-V instruction template naga emits for
each WGSL operator / builtin (i32, u32, f32, bool) evaluates -- in the operation semantics of the executable
SPIR-V interpreter coq/Spv/Sem.v -- to the WGSL meaning and never to undefined behaviour (Props/C01.v over
Spv/CatalogueProofs.v), or a `_refuted` witness where it does not (each a recorded finding).
Tie R: coq/Gen/SpvOpTable.v is regenerated on every run by compiling one micro-program per (operator, kind,
shape) with the current naga and abstracting the emitted instructions; obligation gen_table_in_catalogue.
Tie C (whole programs: control flow, memory, calls): the extracted interpreter (tool spvrun) against the IR
reference interpreter (tool irrun) on hand-written programs, generated programs (lib/wgslgen.py) and the
compute shaders of the repository's corpus, same inputs, final buffers compared bit-exactly.
Search: when the obligation breaks, the differential on the offending probe program over the boundary pool."""
import json
import os
import re

import gen
import nagarun
import ocamlbuild
import spvcheck
import spvprogs
import vcheck

LEVEL = "proof"

MODEL_FILES = ["IR/SemProps.v", "Wgsl/Sem.v", "Wgsl/SemProps.v", "Spv/Binary.v", "Spv/Ops.v", "Spv/Sem.v", "Spv/Catalogue.v", "Spv/CatalogueProofs.v", "Spv/OpTableCheck.v",
               "Base/Bits32.v", "Base/F32.v", "IR/Values.v", "Spv/VectorLift.v", "Spv/VectorLiftCheck.v",
               "Target/Structured.v", "Target/LoopInit.v", "Target/LoopBound.v", "Target/ContinueForward.v", "Target/SwitchForms.v",
               "Target/Desugar.v", "Target/IrInstance.v", "Target/GlslInstance.v", "Target/Examples.v"]

# catalogue keys whose template is refuted by a lemma -> the finding it belongs to (known_findings.jsonl `match`)
REFUTED_FINDING = {
    "shl:i32": "spv-shift-unmasked:i32:<<", "shl:u32": "spv-shift-unmasked:u32:<<",
    "shr:i32": "spv-shift-unmasked:i32:>>", "shr:u32": "spv-shift-unmasked:u32:>>",
    "as_i32:f32": "spv-f2i-unclamped:i32", "as_u32:f32": "spv-f2i-unclamped:u32",
    "mod:f32": "spv-fmod-for-frem:f32:%", "abs:u32": "spv-abs-u32-is-sabs", "round:f32": "spv-round-not-roundeven",
    "clamp:i32": "spv-clamp-low-gt-high:i32", "clamp:u32": "spv-clamp-low-gt-high:u32",
    "countLeadingZeros:i32": "spv-clz-is-msb-index:i32", "countLeadingZeros:u32": "spv-clz-is-msb-index:u32",
    "countTrailingZeros:i32": "spv-ctz-zero:i32", "countTrailingZeros:u32": "spv-ctz-zero:u32",
    "extractBits:i32": "spv-bitfield-unclamped:extractBits:i32", "extractBits:u32": "spv-bitfield-unclamped:extractBits:u32",
    "insertBits:i32": "spv-bitfield-unclamped:insertBits:i32", "insertBits:u32": "spv-bitfield-unclamped:insertBits:u32",
}
REFUTED_WHAT = {
    "spv-shift-unmasked": "`x << n` / `x >> n` is emitted as OpShiftLeftLogical / OpShiftRight* with the amount unmasked: undefined for n >= 32 where WGSL shifts by n % 32 (lemma spv_sh*_refuted, e.g. 1 << 32)",
    "spv-f2i-unclamped": "`i32(f)` / `u32(f)` is a bare OpConvertFToS / OpConvertFToU: undefined for NaN, infinities and out-of-range values where WGSL saturates (lemma spv_as_*_f32_refuted, e.g. i32(2147483648.0), u32(-1.0))",
    "spv-fmod-for-frem": "`a % b` on f32 is emitted as OpFMod (sign of the divisor); WGSL's % is the truncated remainder, OpFRem (lemma spv_mod_f32_refuted: -1.0 % 3.0 gives 2.0, WGSL -1.0)",
    "spv-abs-u32-is-sabs": "`abs(x)` on u32 is emitted as GLSL.std.450 SAbs, which reads x as signed (lemma spv_abs_u32_refuted: abs(2147483649u) gives 2147483647)",
    "spv-round-not-roundeven": "`round(x)` is emitted as GLSL.std.450 Round (ties implementation-chosen) instead of RoundEven (lemma spv_round_f32_refuted: round(2.5))",
    "spv-clamp-low-gt-high": "integer `clamp(e, low, high)` is emitted as SClamp / UClamp, undefined when low > high where WGSL defines min(max(e, low), high) (lemma spv_clamp_*_refuted: clamp(5, 1, 0))",
    "spv-clz-is-msb-index": "`countLeadingZeros(x)` is emitted as FindUMsb / FindSMsb, the INDEX of the leading bit (lemma spv_countLeadingZeros_*_refuted: countLeadingZeros(1) gives 0, WGSL 31)",
    "spv-ctz-zero": "`countTrailingZeros(x)` is emitted as FindILsb: -1 for x = 0 where WGSL says 32 (lemma spv_countTrailingZeros_*_refuted)",
    "spv-bitfield-unclamped": "`extractBits` / `insertBits` are emitted as bare OpBitField*: undefined when offset + count > 32 where WGSL clamps both (lemma spv_*Bits_*_refuted)",
}


REPORTED = set()      # one report per key and run


FINDING_WHAT = {
    "spv-private-init-dropped": "the initialiser of a `var<private>` (IR GlobalVariable.InitExpr) is dropped by the SPIR-V backend: the variable is an OpVariable Private without initializer and is never stored, so its first read is undefined (WGSL: the initial value)",
    "spv-private-not-zeroed": "a `var<private>` without initialiser is emitted as OpVariable Private without initializer: its first read is undefined (WGSL: zero value)",
    "spv-local-var-not-zeroed": "a function-scope `var x: T;` without initialiser is emitted as OpVariable Function without initializer and without a store: its first read is undefined (WGSL: zero value, at every execution of the declaration)",
    "spv-module-composite-constant-null": "a module-scope constant of composite type (`const K = vec4<i32>(7, 65535, -1, 32);`) has no inline Value in the IR (its value is Module.GlobalExpressions[Init]); spirv emitConstant emits OpConstantNull for it, so every use of the constant as a whole value or under a run-time index reads zeros (the repository's golden SPIR-V files encode the same output)",
    "spv-switch-all-break-merge-unreachable": "a switch whose every clause ends by leaving it (`break;`, also mixed with return / continue) gets OpUnreachable as its merge block: emitSwitch counts a case body that ended in `break` as terminated although the break branches to the merge label; every statement after the switch is dropped and executing the switch is undefined behaviour (the golden control-flow.spvasm encodes the same output)",
    "spv-spill-store-not-dominating": "a by-value composite that is dynamically indexed is spilled to a Function variable by an OpStore placed in the block of the FIRST dynamic access; later accesses in blocks that this block does not dominate read the variable without it having been written",
}
for _k, _v in list(REFUTED_FINDING.items()):
    FINDING_WHAT.setdefault(_v, REFUTED_WHAT[[p for p in REFUTED_WHAT if _v.startswith(p)][0]])


def norm_msg(msg):
    msg = re.sub(r"%\d+", "%N", msg)
    msg = re.sub(r"index \d+", "index N", msg)
    return msg[:90]


UNINIT_LOCAL = re.compile(r"\bvar\s+\w+\s*:\s*[^=;]+;")


def report(ctx, name, src, cls, detail, inp, scope, words=None, finding=None):
    """One disagreement of the differential validation -> violation (or known finding) with a stable key."""
    if finding is not None and cls in ("differ", "spv_ub", "spv_impl"):
        if finding in REPORTED:
            return False
        REPORTED.add(finding)
        return ctx.violation("%s (program %s written to expose this finding): %s" % (FINDING_WHAT.get(finding, finding), name, detail),
                             files={"program.wgsl": src, "inputs.json": json.dumps(inp, indent=1)}, key=finding,
                             broken="irrun/spvrun correspondence on %s" % name)
    if cls == "differ":
        d = re.sub(r"\[\d+\]", "[]", detail.split(":")[0] + ":" + detail.split(":")[1]) if detail.count(":") else detail
        key = "spv-differs:%s:%s" % (scope, d[:60])
        what = "naga's SPIR-V for %s computes a different value than WGSL/IR: %s" % (name, detail)
    elif cls in ("spv_ub", "spv_impl"):
        key = "spv-ub:%s:%s" % (scope, norm_msg(detail))
        if "undefined value" in detail and words is not None:
            org = spvcheck.uninit_origin(words, detail)
            key = "spv-uninit:%s:%s" % (org, scope)
            if org == "spill":
                key = "spv-spill-store-not-dominating:%s" % scope
            elif org in ("local", "?") and scope != "generated" and UNINIT_LOCAL.search(src):
                key = "spv-local-var-not-zeroed:%s" % scope
            detail += "  [the undefined value is a load from a %s variable]" % org
        what = "naga's SPIR-V for %s depends on behaviour the SPIR-V specification leaves undefined where WGSL defines the result: %s" % (name, detail)
    elif cls == "spv_fail":
        key = "spvrun-fails:%s:%s" % (scope, norm_msg(detail))
        what = "the SPIR-V interpreter cannot execute naga's output for %s (ill-formed module, or a gap in coq/Spv/Sem.v): %s" % (name, detail)
    else:
        return False
    if key in REPORTED:
        return False
    REPORTED.add(key)
    files = {"program.wgsl": src, "inputs.json": json.dumps(inp, indent=1), "detail.txt": detail}
    return ctx.violation(what, files=files, key=key, broken="irrun/spvrun correspondence on %s" % name)


def missing_rows_from_coq():
    """Ask Coq which probed rows are outside the catalogue (Gen/SpvOpTable.vo is data and compiles even when the obligation fails)."""
    d = os.path.join(vcheck.BUILD, "c01")
    os.makedirs(d, exist_ok=True)
    p = os.path.join(d, "missing.v")
    with open(p, "w") as f:
        f.write("From Coq Require Import List ZArith String.\nRequire Import Naga.Spv.Catalogue Naga.Gen.SpvOpTable.\n"
                "Eval vm_compute in (missing_rows table).\n")
    rc, so, se = vcheck.coqc_file(p, timeout=600, cwd=d)
    return [(k, int(n)) for k, n in re.findall(r'\("([^"]+)",\s*(\d+)\)', so)], (so + se)[-600:]


def vector_lift_report_from_coq():
    """Ask Coq which vector-shaped probed rows are outside the class of the vector-lifting theorem
    (Spv/VectorLift.v; Gen/SpvOpTable.vo is data and compiles even when the obligation in Spv/VectorLiftCheck.v fails)."""
    d = os.path.join(vcheck.BUILD, "c01")
    os.makedirs(d, exist_ok=True)
    p = os.path.join(d, "veclift.v")
    with open(p, "w") as f:
        f.write("From Coq Require Import List ZArith String.\nRequire Import Naga.Spv.Catalogue Naga.Spv.VectorLift Naga.Gen.SpvOpTable.\n"
                "Eval vm_compute in (Z.of_nat (List.length (rows_lifted table)), Z.of_nat (List.length (filter is_vector_row table))).\n"
                "Eval vm_compute in (rows_not_lifted table).\n"
                "Eval vm_compute in (rows_not_vectorized table).\n")
    rc, so, se = vcheck.coqc_file(p, timeout=600, cwd=d)
    parts = so.split("     = ")
    rows = lambda txt: [(k, int(n)) for k, n in re.findall(r'\("([^"]+)",\s*(\d+)\)', txt)]
    counts = re.findall(r"\((\d+),\s*(\d+)\)", parts[1]) if len(parts) > 1 else []
    lifted, total = (int(counts[0][0]), int(counts[0][1])) if counts else (None, None)
    return {"rc": rc, "lifted": lifted, "vector_rows": total,
            "not_lifted": rows(parts[2]) if len(parts) > 2 else [],
            "not_vectorized": rows(parts[3]) if len(parts) > 3 else [],
            "out": (so + se)[-600:]}


def search_vector_rows(ctx, tools, exe_ir, exe_spv, rows, why):
    """The search for rows outside the vector-lifting class: run their probe programs through both interpreters."""
    tab = {(e["key"], e["shape"]): e for e in (spvcheck.LAST_PROBE or spvcheck.probe_table(tools))}
    for k, n in rows[:40]:
        e = tab.get((k, n))
        if e is None or "spv" not in e:
            continue
        comp = {"ir": e["ir"], "spv": e["spv"]}
        inputs = spvcheck.gen_inputs(e["ir"], ctx.rng.fork("vecprobe/%s/%d" % (k, n)), ctx.scale(40, 200), rt_len=2)
        res = spvcheck.run_items(exe_ir, exe_spv, [(comp, inputs, None)])[0] or []
        hit = [(c, d, i) for (c, d, _a, _b), i in zip(res, inputs) if c in ("differ", "spv_ub", "spv_impl", "spv_fail")]
        msg = ("the vector template naga now emits for `%s` (vec%d) is %s, so the per-component reading of the scalar lemma "
               "(teval_vector_lift) does not apply to it" % (k, n, why))
        if hit:
            c, d, i = hit[0]
            ctx.violation("%s and it is wrong: %s\ntemplate: %s" % (msg, d, spvcheck.coq_texp(e["tpl"])),
                          files={"program.wgsl": e["src"], "inputs.json": json.dumps(i, indent=1)},
                          key="spv-vector-template-not-componentwise:%s:%d" % (k, n), broken="gen_vector_rows_lift (Spv/VectorLiftCheck.v)")
        else:
            ctx.violation("%s (no differing input among %d)\ntemplate: %s" % (msg, len(inputs), spvcheck.coq_texp(e["tpl"])),
                          files={"program.wgsl": e["src"]}, found_input=False,
                          key="spv-vector-template-not-componentwise:%s:%d" % (k, n), broken="gen_vector_rows_lift (Spv/VectorLiftCheck.v)")


def search_probe(ctx, tools, exe_ir, exe_spv, rows):
    """The search: run the probe programs of the rows that left the catalogue through both interpreters."""
    tab = {(e["key"], e["shape"]): e for e in (spvcheck.LAST_PROBE or spvcheck.probe_table(tools))}
    found = 0
    for k, n in rows[:40]:
        e = tab.get((k, n))
        if e is None:
            continue
        if "spv" not in e:
            ctx.violation("the SPIR-V backend rejects the probe program for %s (shape %d): %s" % (k, n, e.get("error")),
                          files={"program.wgsl": e["src"]}, key="spv-probe-rejected:%s:%d" % (k, n),
                          broken="gen_table_in_catalogue")
            found += 1
            continue
        comp = {"ir": e["ir"], "spv": e["spv"]}
        inputs = spvcheck.gen_inputs(e["ir"], ctx.rng.fork("probe/%s/%d" % (k, n)), ctx.scale(40, 200), rt_len=2)
        res = spvcheck.run_items(exe_ir, exe_spv, [(comp, inputs, None)])[0] or []
        hit = [(c, d, i) for (c, d, _a, _b), i in zip(res, inputs) if c in ("differ", "spv_ub", "spv_impl", "spv_fail")]
        if hit:
            c, d, i = hit[0]
            ctx.violation("the instruction template naga now emits for `%s` (shape %d) is not in the proved catalogue and is wrong: %s\ntemplate: %s"
                          % (k, n, d, spvcheck.coq_texp(e["tpl"])),
                          files={"program.wgsl": e["src"], "inputs.json": json.dumps(i, indent=1)},
                          key="spv-template-changed:%s:%d" % (k, n), broken="gen_table_in_catalogue")
            found += 1
        else:
            ctx.violation("the instruction template naga now emits for `%s` (shape %d) is not in the proved catalogue (no differing input among %d): %s"
                          % (k, n, len(inputs), spvcheck.coq_texp(e["tpl"])),
                          files={"program.wgsl": e["src"]}, found_input=False,
                          key="spv-template-changed:%s:%d" % (k, n), broken="gen_table_in_catalogue")
    return found


def run(ctx):
    import wgslgen
    import cfskel
    irshapes = cfskel.IrShapes()
    REPORTED.clear()
    tools = vcheck.build_harness(["nagadrive", "goextract"])
    ok, failed, log = vcheck.proof_step(
        ctx, "Props/C01.v", MODEL_FILES,
        gen_writer=lambda: gen.regenerate(tools, ["irenums", "spvoptable"]),
        extra_obligation_files=["Spv/OpTableCheck.v", "Spv/CatalogueProofs.v", "Spv/VectorLiftCheck.v", "Props/C01Vec.v"])
    ctx.cov["trusted_base"] += [
        "SPIR-V semantics: coq/Spv/Ops.v + Spv/Sem.v are my transcription of the SPIR-V 1.6 and GLSL.std.450 specifications (opcode numbers, operand layouts, undefined cases), independent of naga's spirv.go",
        "WGSL operator meaning: coq/Base/Bits32.v, Base/F32.v (Flocq binary32), IR/Values.v, IR/Sem.v (shared reference semantics)",
        "probe: lib/spvcheck.py (micro-program per operator, Python SPIR-V reader lib/spvdis.py, abstraction of the instruction DAG between the operand loads and the store); vector templates are compared after erasing splats",
        "extraction: ExtrOcamlBasic only; generic OCaml driver; harness/cmd/nagadrive (naga.Parse + LowerWithSource + GenerateSPIRV, default options)",
        "Flocq / Reals axioms under the float lemmas: ClassicalDedekindReals.sig_forall_dec, sig_not_dec, FunctionalExtensionality.functional_extensionality_dep, Classical_Prop.classic",
    ]
    ctx.assumptions = [
        "single invocation: barriers are no-ops, atomics sequential; the invocation is the first of its workgroup (it runs the workgroup zero-initialisation)",
        "NaN operands: where both WGSL and SPIR-V leave the result open (FMin/FMax/FClamp/FSign, OpFOrdNotEqual) a run is counted `nan_unspecified`, not reported",
        "the vector form of a template is the scalar template applied per component (validated by the differential runs on vector programs, proved for vec2 naga_div only)",
        "whole-program correctness is validated (irrun vs spvrun), not proved: spv_check_sound is not part of this round",
    ]
    exe_ir = ocamlbuild.build("irrun")
    exe_spv = ocamlbuild.build("spvrun")
    probe = spvcheck.LAST_PROBE or []
    ctx.cov["probe_rows"] = len(probe)
    ctx.cov["probe_keys"] = len({e["key"] for e in probe})
    broken = None
    if not ok:
        broken = "Coq development no longer checks: %s" % (failed or log[-600:])
        if any("OpTableCheck" in f for f in failed) or "OpTableCheck" in log:
            rows, out = missing_rows_from_coq()
            ctx.cov["rows_outside_catalogue"] = rows[:50]
            broken = "gen_table_in_catalogue: %d probed template(s) are in no catalogue entry: %s" % (len(rows), rows[:8])
            n = search_probe(ctx, tools, exe_ir, exe_spv, rows)
            if rows and n == 0 and not ctx.violations:
                ctx.violation(broken, found_input=False, broken=broken)
            elif not rows and not any("VectorLiftCheck" in f for f in failed):
                ctx.violation(broken + "\n" + out, found_input=False, broken=broken)
        elif any("VectorLiftCheck" in f for f in failed) or "VectorLiftCheck" in log:
            pass    # reported below from the vector-lifting report
        else:
            ctx.violation(broken, found_input=False, broken=broken)
    # vector shapes: every in-scope vector row must be in the class of teval_vector_lift (Spv/VectorLiftCheck.v)
    vl = vector_lift_report_from_coq()
    ctx.cov["vector_rows_probed"] = vl["vector_rows"]
    ctx.cov["vector_rows_covered_by_teval_vector_lift"] = vl["lifted"]
    ctx.cov["vector_rows_outside_lifting_class"] = vl["not_lifted"][:50]
    ctx.cov["vector_rows_not_splat_of_scalar_form"] = vl["not_vectorized"][:50]
    if vl["not_lifted"] or vl["not_vectorized"]:
        n0 = len(ctx.violations)
        search_vector_rows(ctx, tools, exe_ir, exe_spv, vl["not_lifted"],
                           "not a component-wise template with all splats of the vector's width (scalar constant where a splat is needed, wrong splat width, or a non-component-wise instruction)")
        search_vector_rows(ctx, tools, exe_ir, exe_spv, [r for r in vl["not_vectorized"] if r not in vl["not_lifted"]],
                           "not the scalar catalogue template with its constants splatted")
        if len(ctx.violations) == n0:
            b = "gen_vector_rows_lift: vector rows outside the lifting class: %s / not vectorized: %s" % (vl["not_lifted"][:8], vl["not_vectorized"][:8])
            ctx.violation(b, found_input=False, broken=b)
    elif (not ok and (any("VectorLiftCheck" in f for f in failed) or "VectorLiftCheck" in log)) or vl["lifted"] is None:
        b = "Spv/VectorLiftCheck.v no longer checks (vector-lifting tie): %s" % (vl["out"] if vl["lifted"] is None else (failed or log[-600:]))
        ctx.violation(b, found_input=False, broken=b)
    # refuted templates that naga still emits: findings proved by the `_refuted` lemmas
    seen = set()
    for e in probe:
        k = e["key"]
        if k in REFUTED_FINDING and "tpl" in e and k not in seen:
            seen.add(k)
            fk = REFUTED_FINDING[k]
            what = REFUTED_WHAT[[p for p in REFUTED_WHAT if fk.startswith(p)][0]]
            ctx.violation("%s [catalogue key %s]" % (what, k), files={"program.wgsl": e["src"]}, key=fk,
                          broken="Props/C01.v: the correct-for-all-operands statement for %s is refuted" % k)
    ctx.cov["refuted_templates_still_emitted"] = sorted(seen)

    # ---- differential validation on whole programs
    stats = {}
    samples = []
    distinct = set()

    def account(scope, name, src, res, inputs, words=None, finding=None):
        if res is None:
            stats.setdefault(scope, {}).setdefault("cannot_run", 0)
            stats[scope]["cannot_run"] += 1
            return
        for (c, d, a, b), i in zip(res, inputs):
            s = stats.setdefault(scope, {})
            s[c] = s.get(c, 0) + 1
            if c == "agree":
                distinct.add((name, json.dumps(b.get("buffers"), sort_keys=True)))
            report(ctx, name, src, c, d, i, scope if scope == "generated" else name, words, finding)

    # 1. hand-written programs
    progs = [(n, s) for n, _t, s in spvprogs.PROGRAMS]
    comp = spvcheck.compile_many(tools, progs)
    items, meta = [], []
    for name, src in progs:
        c = comp.get(name)
        if c is None or "ir" not in c or "spv" not in c:
            ctx.violation("hand-written program %s no longer compiles to SPIR-V: %s" % (name, {k: v for k, v in (c or {}).items() if k in ("err", "stage", "spv_err", "panic", "crash")}),
                          files={"program.wgsl": src}, key="spv-rejects:%s" % name, broken="naga.GenerateSPIRV on a valid program")
            continue
        irshapes.add(ctx, name, src, c["ir"])
        inputs = spvcheck.gen_inputs(c["ir"], ctx.rng.fork("hand/" + name), ctx.scale(4, 16), rt_len=24, small_ints=[0, 1, 2, 3, 4, 5])
        if inputs is None:
            continue
        # every compute entry point of the module is run (a program may have several: state shared between the entry
        # points of one module - caches keyed by function, interface lists, zero-initialisation - is only visible then)
        eps_ = spvcheck.compute_entry_points(c["ir"])
        for _epi, epn in (eps_ if len(eps_) > 1 else [(0, None)]):
            items.append((c, inputs, epn))
            meta.append((name if epn is None else name + ":" + epn, src, inputs, spvcheck.spv_words(c["spv"])))
    ftag = {n: [t[8:] for t in tags if t.startswith("finding:")] for n, tags, _s in spvprogs.PROGRAMS}
    ftag = dict(ftag, **{n + ":" + e: v for n, v in ftag.items() for e in ("main", "pass_a", "pass_b", "pass_c")})
    for (name, src, inputs, words), res in zip(meta, spvcheck.run_items(exe_ir, exe_spv, items)):
        account("hand", name, src, res, inputs, words, (ftag.get(name) or [None])[0])
    if samples == [] and meta:
        ctx.sample({"program": meta[0][0], "inputs": meta[0][2][0]["buffers"]})

    # 2. generated programs
    n_gen = ctx.scale(16, 150)
    gprogs = []
    for k in range(n_gen):
        r = ctx.rng.fork("gen/%d" % k)
        prog, _src = wgslgen.generate(r.fork("p"), {})
        prog = spvcheck.avoid_uninit_findings(prog)
        gprogs.append(("gen%d" % k, prog, wgslgen.render(prog)))
    comp = spvcheck.compile_many(tools, [(n, s) for n, _p, s in gprogs])
    items, meta = [], []
    rejected = 0
    for name, prog, src in gprogs:
        c = comp.get(name)
        if c is None or "ir" not in c or "spv" not in c:
            rejected += 1          # acceptance of valid programs is C08's property; counted, not reported here
            continue
        irshapes.add(ctx, "generated", src, c["ir"])
        inputs = spvcheck.generated_inputs(wgslgen, prog, ctx.rng.fork("genin/" + name), ctx.scale(3, 4))
        items.append((c, inputs, None))
        meta.append((name, src, inputs, spvcheck.spv_words(c["spv"])))
    for (name, src, inputs, words), res in zip(meta, spvcheck.run_items(exe_ir, exe_spv, items)):
        account("generated", name, src, res, inputs, words)
    stats.setdefault("generated", {})["rejected_by_naga"] = rejected
    ctx.cov["lowering_shapes"] = irshapes.evidence()     # tie of c01_while/for_desugar_equiv (coq/Target/Desugar.v)
    if meta:
        ctx.sample({"program": meta[0][1][:400]})

    # 3. corpus compute shaders
    corp = nagarun.corpus()
    if not ctx.thorough:
        corp = ctx.rng.fork("corpus").shuffle(corp)[:24]
    comp = spvcheck.compile_many(tools, corp)
    items, meta = [], []
    for name, src in corp:
        c = comp.get(name)
        if c is None or "ir" not in c or "spv" not in c:
            continue
        for _epi, epname in spvcheck.compute_entry_points(c["ir"]):
            inputs = spvcheck.gen_inputs(c["ir"], ctx.rng.fork("corpus/" + name + epname), ctx.scale(2, 4), small_ints=[0, 1, 2, 3])
            if inputs is None:
                continue
            items.append((c, inputs, epname))
            meta.append((name + ":" + epname, src, inputs, spvcheck.spv_words(c["spv"])))
    for (name, src, inputs, words), res in zip(meta, spvcheck.run_items(exe_ir, exe_spv, items)):
        account("corpus", name, src, res, inputs, words)

    # ---- WGSL -> IR leg: the WGSL-core reference semantics on the generated AST vs the IR reference
    #      semantics on what naga lowered from the rendered text (lib/wgslleg.py), plus probes of recorded findings
    import wgslleg
    ctx.cov["wgsl_to_ir_leg"] = wgslleg.run_leg(ctx, tools, ctx.scale(40, 600))

    ctx.cov["differential"] = stats
    total = sum(v for s in stats.values() for k, v in s.items() if k not in ("rejected_by_naga", "cannot_run"))
    agree = sum(s.get("agree", 0) for s in stats.values())
    ctx.cov["evaluations"] = total + len(probe)
    ctx.cov["traces_validated_against_impl"] = agree
    ctx.cov["distinct_nontrivial"] = len(distinct)
    ctx.cov["rule"] = ("probe: one micro-program per (operator, kind, shape); differential: (program, input) pairs over hand-written "
                       "(lib/spvprogs.py), generated (lib/wgslgen.py) and corpus compute shaders; inputs from the boundary pools "
                       "(0, 1, -1, INT_MIN, INT_MAX, UINT_MAX, 31, 32, 33, subnormals, NaN, inf) plus seeded random words; "
                       "distinct non-trivial = distinct (program, final buffer contents) among the runs on which both interpreters finished and agreed")
    ctx.cov["classes"] = ("agree | differ (violation) | spv_ub / spv_impl (violation: undefined / implementation-chosen in SPIR-V) | spv_nan (NaN, unspecified in both) | "
                          "ir_out (program outside the IR reference fragment, or the IR run fails) | spv_unmodelled | spv_fail (violation) | fuel | crash")
    if broken and ok is False:
        ctx.cov["broken_tie"] = broken
