"""C17 — resource bindings and stage interfaces survive translation exactly.

Deciding method: Coq theorems (Props/C17.v): `used_globals_correct` (the set of
globals an entry point uses = call-graph reachability, all modules),
`check_spv_iface_sound` / `interface_exact` (a verified checker of the SPIR-V
interface run on the real binary), lookup semantics and injectivity of the
HLSL / MSL / GLSL binding-map models; R: the switch tables of backend.go and the
lowerer's builtin-name table regenerated from /repo on every run and compared with
tables transcribed from the SPIR-V / Vulkan / WGSL specifications; C/V: generated
modules (1-4 entry points of mixed stages sharing / not sharing resources, IO structs
and bare bindings, every builtin legal per stage, locations 0-15, interpolation
qualifiers) x random binding options per back end: the WGSL attributes as written
(generator ground truth) = the interface the model derives from the IR = what the
binary / text carries, and the reflection structs describe the text in both directions."""
import json
import os
import re

import gen
import ifacegen
import ifacetext as T
import nagarun
import ocamlbuild
import vcheck

LEVEL = "proof"

MODEL_FILES = ["Iface/Reach.v", "Iface/SpvSpec.v", "Iface/SpvIface.v", "Iface/TextBindings.v"]
PROOF_FILES = ["Iface/Reach.v", "Iface/ReachGo.v", "Iface/SpvIfaceProofs.v", "Iface/TextBindings.v", "Iface/SpvGenTies.v"]

SPV_VERSIONS_OLD = [0x0100, 0x0101, 0x0102, 0x0103]
SPV_VERSIONS_NEW = [0x0104, 0x0105, 0x0106]
GLSL_VERSIONS = [[3, 30, 0], [4, 10, 0], [4, 20, 0], [4, 30, 0], [4, 50, 0], [3, 0, 1], [3, 10, 1], [3, 20, 1]]

SC_INPUT, SC_OUTPUT = 1, 3
CLASS_OF_KIND = {"ubuf_struct": 2, "ubuf_vec": 2, "sro": 12, "sro_struct": 12, "srw": 12, "tex": 0, "samp": 0, "stex": 0,
                 "wg": 4, "priv": 6}
MSL_KIND = {"tex": "texture", "stex": "texture", "samp": "sampler"}
MSL_INTERP = {("flat", "center"): "flat", ("perspective", "center"): "center_perspective",
              ("perspective", "centroid"): "centroid_perspective", ("perspective", "sample"): "sample_perspective",
              ("linear", "center"): "center_no_perspective", ("linear", "centroid"): "centroid_no_perspective",
              ("linear", "sample"): "sample_no_perspective"}


class Stats:
    def __init__(self):
        self.c = {}

    def add(self, k, n=1):
        self.c[k] = self.c.get(k, 0) + n


# ---------------------------------------------------------------------------
# what the WGSL text says -> the interface in the model's vocabulary

def truth_io(stage, it):
    """normalised expected interface variable from a generator item (independent reading of WGSL/Vulkan rules)"""
    out = it["dir"] == "out"
    isint = ifacegen.is_int(it["type"])
    d = {"class": SC_OUTPUT if out else SC_INPUT, "loc": it.get("loc"), "builtin": it.get("spv_builtin"),
         "nopersp": False, "centroid": False, "sample": False, "index": it.get("blend_src"),
         "invariant": "mustnot", "flat": "mustnot"}
    if "builtin" in it:
        if stage == "fragment" and not out:
            d["flat"] = "must" if isint else ("any" if it["type"] == "bool" else "mustnot")
        elif stage == "compute":
            d["flat"] = "any"
        if it.get("invariant"):
            d["invariant"] = "must" if out else "any"
        return d
    interpolated = (stage == "vertex" and out) or (stage == "fragment" and not out)
    if interpolated:
        kind, samp = it.get("kind") or "perspective", it.get("samp") or "center"
        d["flat"] = "must" if (kind == "flat" or isint) else "mustnot"
        d["nopersp"] = kind == "linear"
        d["centroid"] = samp == "centroid"
        d["sample"] = samp == "sample"
    return d


def io_sort_key(d):
    return (d["class"], -1 if d["loc"] is None else d["loc"], -1 if d["builtin"] is None else d["builtin"],
            -1 if d["index"] is None else d["index"])


def strip_extras(ios, stage, fps, uses_wg, has_lid):
    """remove the back end's own additions (PointSize under ForcePointSize, LocalInvocationId for the
    workgroup zero-initialisation) from the model's expected list; returns (rest, ok)"""
    rest = list(ios)
    ok = True
    if stage == "vertex" and fps:
        k = [i for i, d in enumerate(rest) if d["builtin"] == 1 and d["class"] == SC_OUTPUT]
        if len(k) == 1:
            rest.pop(k[0])
        else:
            ok = False
    if stage == "compute" and uses_wg and not has_lid:
        k = [i for i, d in enumerate(rest) if d["builtin"] == 27 and d["class"] == SC_INPUT]
        if len(k) == 1:
            rest.pop(k[0])
        else:
            ok = False
    return rest, ok


def compare_truth_with_model(ctx, st, src, truth, exp, fps, tag):
    """lowering leg: the interface the model derives from the IR = what the source says"""
    bad = []
    res = truth["resources"]
    gl = {g["handle"]: g for g in exp["globals"]}
    for e in res:
        g = gl.get(e["handle"])
        if g is None:
            bad.append(("global-missing", e["name"]))
            continue
        if g["class"] != CLASS_OF_KIND[e["kind"]]:
            bad.append(("storage-class", e["name"]))
        if (g["group"], g["binding"]) != (e["group"], e["binding"]):
            bad.append(("group-binding", e["name"]))
        want_nw = "must" if e["kind"] in ("sro", "sro_struct") else ("any" if e["kind"] in ("tex", "samp", "stex") else "mustnot")
        if g["nonwritable"] != want_nw:
            bad.append(("access-mode", e["name"]))
    if len(exp["globals"]) != len(res):
        bad.append(("global-count", ""))
    by_name = {e["name"]: e for e in res}
    eps = {e["name"]: e for e in exp["eps"]}
    for ep in truth["eps"]:
        x = eps.get(ep["name"])
        if x is None or x.get("unsupported"):
            bad.append(("entry-point-unsupported-or-missing", ep["name"]))
            continue
        model = {"vertex": 0, "fragment": 4, "compute": 5}[ep["stage"]]
        if x["model"] != model:
            bad.append(("stage", ep["name"]))
        want_modes = []
        if ep["stage"] == "fragment":
            want_modes.append([7, []])
            if any(o.get("builtin") == "frag_depth" for o in ep["outputs"]):
                want_modes.append([12, []])
        if ep["stage"] == "compute":
            want_modes.append([17, ep["workgroup"]])
        if sorted(map(json.dumps, x["modes"])) != sorted(map(json.dumps, want_modes)):
            bad.append(("execution-modes", ep["name"]))
        uses_wg = any(by_name[n]["kind"] == "wg" for n in ep["uses"])
        has_lid = any(i.get("builtin") == "local_invocation_id" for i in ep["inputs"])
        got, ok = strip_extras(x["ios"], ep["stage"], fps, uses_wg, has_lid)
        if not ok:
            bad.append(("backend-extra-variable", ep["name"]))
        want = sorted((truth_io(ep["stage"], it) for it in ep["inputs"] + ep["outputs"]), key=io_sort_key)
        got = sorted(got, key=io_sort_key)
        if want != got:
            bad.append(("io", ep["name"]))
        want_used = sorted(by_name[n]["handle"] for n in ep["uses"])
        if sorted(x["globals"]) != want_used:
            bad.append(("used-globals", ep["name"]))
    if len(exp["eps"]) != len(truth["eps"]):
        bad.append(("entry-point-count", ""))
    for kind, subj in bad:
        st.add("lower_mismatch")
        ctx.violation("WGSL -> IR: the interface derived from the lowered IR differs from the attributes written in the source (%s of %s)" % (kind, subj),
                      files={"module.wgsl": src, "truth.json": json.dumps(truth, indent=1), "model_expected.json": json.dumps(exp, indent=1)},
                      key="lower:%s" % kind, broken="correspondence source attributes = IR bindings (lowerer)")
    return not bad


# ---------------------------------------------------------------------------
# option generators

def random_hlsl_cfgs(rng, truth):
    bound = [(e["group"], e["binding"]) for e in truth["resources"] if e["group"] is not None]
    cfgs = []
    for tag, fake in (("hf", True), ("hn", False)):
        bm = []
        used = set()
        mode = rng.below(4)                      # 0: no map, 1: partial, 2: complete, 3: complete
        for k in bound:
            if mode == 0 or (mode == 1 and rng.chance(1, 2)):
                continue
            while True:
                t = (rng.range(0, 3), rng.range(0, 20))
                if t not in used:
                    used.add(t)
                    break
            bm.append([k[0], k[1], t[0], t[1]])
        extra = [[7, rng.range(0, 9), 1, 1]] if rng.chance(1, 3) else []       # an entry for a binding that does not exist
        cfgs.append({"tag": tag, "fake": fake, "binding_map": bm + extra})
    # a third configuration names a fragment entry point of the module as Options.FragmentEntryPoint
    frags = [e["name"] for e in truth["eps"] if e["stage"] == "fragment"]
    if frags and any(e["stage"] == "vertex" for e in truth["eps"]):
        cfgs.append({"tag": "hfe", "fake": True, "binding_map": [], "fragment_ep": rng.choice(frags)})
    return cfgs


def random_msl_cfgs(rng, truth):
    bound = [e for e in truth["resources"] if e["group"] is not None]
    cfgs = [{"tag": "ma", "fake": False}, {"tag": "mf", "fake": True}]
    for tag, fake in (("mpf", True), ("mpn", False)):
        per = {}
        for ep in truth["eps"]:
            if rng.chance(1, 4):
                continue                          # no map for this entry point
            resl = []
            nb = nt = ns = 0
            start = rng.range(0, 3)
            for e in bound:
                if rng.chance(1, 4):
                    continue                      # absent entry
                kind = MSL_KIND.get(e["kind"], "buffer")
                b = t = s = -1
                if kind == "buffer":
                    b = start + nb
                    nb += 1
                elif kind == "texture":
                    t = start + nt
                    nt += 1
                else:
                    s = start + ns
                    ns += 1
                resl.append([e["group"], e["binding"], b, t, s])
            per[ep["name"]] = {"resources": resl}
            if rng.chance(1, 2):
                per[ep["name"]]["sizes_buffer"] = rng.range(20, 30)
        cfgs.append({"tag": tag, "fake": fake, "per_ep": per})
    return cfgs


def random_glsl_cfgs(rng, truth):
    bound = [(e["group"], e["binding"]) for e in truth["resources"] if e["group"] is not None]
    cfgs = []
    for tag in ("ga", "gb"):
        v = rng.choice(GLSL_VERSIONS)
        c = {"tag": tag, "version": v}
        mode = rng.below(4)
        if mode > 0:
            bm = []
            n = 0
            for k in bound:
                if mode == 1 and rng.chance(1, 2):
                    continue
                bm.append([k[0], k[1], n])
                n += 1
            c["binding_map"] = bm
        if rng.chance(1, 4):
            c["uniform_base"] = rng.range(1, 8)
            c["storage_base"] = rng.range(1, 8)
            c["texture_base"] = rng.range(1, 8)
            c["sampler_base"] = rng.range(1, 8)
        cfgs.append(c)
    return cfgs


def model_text_opts(h, m, g):
    return {"hlsl": {"map": h.get("binding_map"), "fake": h["fake"]},
            "msl": {"per_ep": m.get("per_ep"), "fake": m["fake"]},
            "glsl": {"map": g.get("binding_map"), "version": g["version"]}}


# ---------------------------------------------------------------------------
# text back ends against the model

def hlsl_expected_semantics(ep):
    ins, outs = [], []
    for it in ep["inputs"]:
        if "builtin" in it:
            if it.get("hlsl"):
                ins.append(it["hlsl"])
        else:
            ins.append("LOC%d" % it["loc"])
    for it in ep["outputs"]:
        if "builtin" in it:
            outs.append(it["hlsl"])
        elif ep["stage"] == "fragment":
            outs.append("SV_Target%d" % (1 if it.get("blend_src") == 1 else it["loc"]))
        else:
            outs.append("LOC%d" % it["loc"])
    return sorted(ins), sorted(outs)


def check_hlsl(ctx, st, src, truth, cfg, out, model, viol):
    if "text" not in out:
        viol("hlsl:compile-failed", "HLSL generation failed: %s" % (out.get("err") or out.get("panic")), cfg)
        return
    text, info = out["text"], out["info"]
    regs, dup = T.hlsl_registers(text)
    samplers = T.hlsl_samplers(text)
    by_name = {e["name"]: e for e in truth["resources"]}
    mg = {g["name"]: g for g in model["globals"]}
    mapped = {(x[0], x[1]) for x in (cfg.get("binding_map") or [])}
    for e in truth["resources"]:
        if e["group"] is None:
            if e["name"] in regs:
                viol("hlsl:register-on-unbound", "%s has no @group/@binding but got a register" % e["name"], cfg)
            continue
        g = mg[e["name"]]
        absent = (e["group"], e["binding"]) not in mapped
        if absent and not cfg["fake"]:
            # the option's contract: "If a binding is not found in the map and FakeMissingBindings is false,
            # compilation will fail with ErrMissingBinding" -- it compiled
            viol("hlsl:absent-binding-without-fake:no-error",
                 "HLSL: @group(%d) @binding(%d) is absent from BindingMap, FakeMissingBindings=false, yet compilation succeeded "
                 "(the resource silently lands on register 0 of space 0)" % (e["group"], e["binding"]), cfg)
        if absent and cfg["fake"] and e["group"] > 255:
            viol("hlsl:fake-binding-group-over-255",
                 "HLSL fake binding: group %d does not fit the 8-bit register space and is mapped to space 0" % e["group"], cfg)
        if e["kind"] == "samp":
            got = samplers.get(e["name"])
            if got is None:
                viol("hlsl:sampler-declaration-missing", "sampler %s not declared through the sampler heap" % e["name"], cfg)
            elif got != (e["group"], g["hlsl_register"]):
                viol("hlsl:sampler-index", "sampler %s: heap index buffer group/index %s, model (%d, %d)" % (e["name"], got, e["group"], g["hlsl_register"]), cfg)
            continue
        cls = g["hlsl_class"]
        if cls == "h":
            cls = "u" if e["kind"] == "stex" else "t"
        want = (cls, g["hlsl_register"], g["hlsl_space"])
        got = regs.get(e["name"])
        st.add("hlsl_registers_compared")
        if got != want:
            viol("hlsl:register", "HLSL register of %s: text %s, model %s (binding map %s, fake=%s)" % (e["name"], got, want, cfg.get("binding_map"), cfg["fake"]), cfg)
    # every register in the text belongs to a bound resource or a known helper object
    for name in regs:
        if name in by_name or name.startswith("naga") or name == "_NagaConstants":
            continue
        viol("hlsl:unknown-register-declaration", "register(...) on %s which is no resource of the module" % name, cfg)
    # reflection: RegisterBindings describe the text, both directions
    rb = {k: v for k, v in info.get("RegisterBindings") or []}
    for name, v in rb.items():
        got = regs.get(name)
        txt = None if got is None else ("register(%s%d, space%d)" % got if got[2] != 0 else "register(%s%d)" % got[:2])
        if txt != v:
            viol("hlsl:reflection-register-untrue", "TranslationInfo.RegisterBindings[%s] = %s but the text says %s" % (name, v, txt), cfg)
    for name in regs:
        if name in by_name and name not in rb:
            viol("hlsl:reflection-register-missing", "%s is declared with a register but absent from TranslationInfo.RegisterBindings" % name, cfg)
    epn = {k: v for k, v in info.get("EntryPointNames") or []}
    for ep in truth["eps"]:
        n = epn.get(ep["name"])
        if n is None:
            viol("hlsl:reflection-entry-point-missing", "entry point %s absent from TranslationInfo.EntryPointNames" % ep["name"], cfg)
            continue
        io = T.hlsl_io(text, n)
        if io is None:
            viol("hlsl:reflection-entry-point-untrue", "TranslationInfo.EntryPointNames[%s] = %s is not a function of the text" % (ep["name"], n), cfg)
            continue
        wi, wo = hlsl_expected_semantics(ep)
        fe = cfg.get("fragment_ep")
        if fe and ep["stage"] == "vertex":
            # Options.FragmentEntryPoint: outputs of a vertex entry point (returned as a struct) at locations the named fragment
            # entry point does not take as input are stripped - and every location it DOES take must stay (linkage)
            fl = {it["loc"] for e2 in truth["eps"] if e2["name"] == fe for it in e2["inputs"] if "loc" in it}
            if fl:
                wo = sorted(x for x in wo if not x.startswith("LOC") or int(x[3:]) in fl)
                st.add("hlsl_vertex_outputs_filtered_by_fragment_inputs")
        gi = sorted(s for s, _, pn in io[0] if pn not in ("__local_invocation_id", "__local_invocation_index"))
        go = sorted(s for s, _, _ in io[1])
        st.add("hlsl_entry_points_compared")
        if any(i.get("builtin") == "num_workgroups" for i in ep["inputs"]):
            continue                      # NumWorkGroups needs a helper constant buffer: outside this reader
        if gi != wi or go != wo:
            viol("hlsl:semantics", "HLSL semantics of %s: inputs %s / outputs %s, expected %s / %s" % (ep["name"], gi, go, wi, wo), cfg)
        # interpolation modifiers on the user varyings
        for its, got in ((ep["inputs"], io[0]), (ep["outputs"], io[1])):
            for it in its:
                if "loc" not in it or it.get("kind") is None:
                    continue
                interpolated = (ep["stage"] == "vertex" and it["dir"] == "out") or (ep["stage"] == "fragment" and it["dir"] == "in")
                if not interpolated:
                    continue
                mods = [m for s, m, _ in got if s == "LOC%d" % it["loc"]]
                want = []
                if it["kind"] == "flat" or ifacegen.is_int(it["type"]):
                    want.append("nointerpolation")
                elif it["kind"] == "linear":
                    want.append("noperspective")
                if it.get("samp") in ("centroid", "sample") and it["kind"] != "flat":
                    want.append(it["samp"])
                if mods and sorted(mods[0]) != sorted(want):
                    viol("hlsl:interpolation", "HLSL interpolation of location %d of %s: %s, expected %s" % (it["loc"], ep["name"], mods[0], want), cfg)
    for k in epn:
        if k not in {e["name"] for e in truth["eps"]}:
            viol("hlsl:reflection-entry-point-extra", "TranslationInfo.EntryPointNames lists %s which is no entry point" % k, cfg)


def msl_expected_io(ep):
    """(stage_in attrs, builtin param attrs, output attrs) as sorted lists of attribute strings"""
    sin, bins, outs = [], [], []
    for it in ep["inputs"]:
        if "builtin" in it:
            bins.append(it["msl"])
        elif ep["stage"] == "vertex":
            sin.append("attribute(%d)" % it["loc"])
        else:
            kind = it.get("kind") or "perspective"
            if ifacegen.is_int(it["type"]):
                kind = "flat"
            samp = it.get("samp") or "center"
            sin.append("user(loc%d), %s" % (it["loc"], MSL_INTERP[(kind, "center" if kind == "flat" else samp)]))
    for it in ep["outputs"]:
        if "builtin" in it:
            outs.append(it["msl"] + (", invariant" if it.get("invariant") else ""))
        elif ep["stage"] == "fragment":
            outs.append("color(%d)" % it["loc"] + (" index(%d)" % it["blend_src"] if it.get("blend_src") is not None else ""))
        else:
            kind = it.get("kind") or "perspective"
            if ifacegen.is_int(it["type"]):
                kind = "flat"
            samp = it.get("samp") or "center"
            outs.append("user(loc%d), %s" % (it["loc"], MSL_INTERP[(kind, "center" if kind == "flat" else samp)]))
    return sorted(sin), sorted(bins), sorted(outs)


def check_msl(ctx, st, src, truth, cfg, out, model, viol):
    if "text" not in out:
        viol("msl:compile-failed", "MSL generation failed: %s" % (out.get("err") or out.get("panic")), cfg)
        return
    text, info = out["text"], out["info"]
    entries = T.msl_entries(text)
    by_name = {e["name"]: e for e in truth["resources"]}
    by_handle = {e["handle"]: e for e in truth["resources"]}
    meps = {e["name"]: e for e in model["eps"]}
    epn = {k: v for k, v in info.get("EntryPointNames") or []}
    for ep in truth["eps"]:
        n = epn.get(ep["name"])
        if n is None:
            viol("msl:reflection-entry-point-missing", "entry point %s absent from TranslationInfo.EntryPointNames" % ep["name"], cfg)
            continue
        ent = entries.get(n)
        if ent is None:
            viol("msl:reflection-entry-point-untrue", "TranslationInfo.EntryPointNames[%s] = %s is not an entry function of the text" % (ep["name"], n), cfg)
            continue
        if ent["stage"] != {"vertex": "vertex", "fragment": "fragment", "compute": "kernel"}[ep["stage"]]:
            viol("msl:stage-keyword", "%s is a %s function, expected stage %s" % (n, ent["stage"], ep["stage"]), cfg)
        # ---- resources
        want = {}
        per = cfg.get("per_ep")
        has_map = per is not None and ep["name"] in per
        mapped = {(x[0], x[1]) for x in per[ep["name"]]["resources"]} if has_map else set()
        fallback = False
        for s in meps[ep["name"]]["msl"]:
            e = by_handle[s["handle"]]
            kind = MSL_KIND.get(e["kind"], "buffer")
            want[e["name"]] = "fake" if s["slot"] == "fake" else (kind, s["slot"])
            if has_map and (e["group"], e["binding"]) not in mapped and not cfg["fake"]:
                viol("msl:absent-binding-without-fake:raw-binding-fallback",
                     "MSL: @group(%d) @binding(%d) is absent from the entry point's resource map, FakeMissingBindings=false, yet "
                     "compilation succeeded and the raw WGSL binding number %d is used as the Metal slot"
                     % (e["group"], e["binding"], e["binding"]), cfg)
                fallback = True
        got = {}
        for decl, pname, attr in ent["params"]:
            slot = T.msl_resource_slot(attr)
            if pname == "_buffer_sizes":
                sb = (per or {}).get(ep["name"], {}).get("sizes_buffer") if has_map else None
                if sb is not None:
                    if slot != ("buffer", sb):
                        viol("msl:sizes-buffer-slot", "MSL %s: _buffer_sizes bound at %s, SizesBuffer option says buffer(%d)" % (n, slot, sb), cfg)
                elif cfg["fake"]:
                    if slot != "fake":
                        viol("msl:sizes-buffer-slot", "MSL %s: _buffer_sizes bound at %s under FakeMissingBindings" % (n, slot), cfg)
                else:
                    viol("msl:sizes-buffer-without-slot",
                         "MSL %s needs the buffer-sizes argument (runtime-sized array) but no SizesBuffer slot is configured and "
                         "FakeMissingBindings=false: compilation succeeded and the parameter has %s" % (n, "no attribute at all" if attr is None else attr), cfg)
            if pname in by_name:
                got[pname] = slot
            elif slot is not None and pname not in ("_buffer_sizes",):
                viol("msl:unknown-resource-parameter", "parameter %s of %s has a resource slot but is no resource of the module" % (pname, n), cfg)
        st.add("msl_entry_points_compared")
        if got != want:
            viol("msl:resource-slots", "MSL argument slots of %s: text %s, model %s (per-entry-point map %s, fake=%s)"
                 % (ep["name"], sorted(got.items()), sorted(want.items()), (per or {}).get(ep["name"]), cfg["fake"]), cfg)
        # two resources of one kind must not share a slot
        seen = {}
        for nm, sl in got.items():
            if isinstance(sl, tuple):
                if sl in seen and not fallback:
                    viol("msl:slot-collision", "MSL: %s and %s of %s share %s(%d)" % (seen[sl], nm, ep["name"], sl[0], sl[1]), cfg)
                seen[sl] = nm
        # ---- stage IO
        wsin, wbins, wouts = msl_expected_io(ep)
        gbins = sorted(a for d, p, a in ent["params"] if a is not None and T.msl_resource_slot(a) is None and a != "stage_in"
                       and p not in by_name and p != "__local_invocation_id")
        stage_in = [d for d, p, a in ent["params"] if a == "stage_in"]
        gsin = []
        if stage_in:
            sname = stage_in[0].split()[0]
            ms = T.msl_struct(text, sname)
            if ms is None:
                viol("msl:stage-in-struct-missing", "stage_in struct %s of %s not found" % (sname, n), cfg)
            else:
                gsin = sorted(a or "" for _, a in ms)
        gouts = []
        ret = ent["ret"]
        if ret != "void":
            ms = T.msl_struct(text, ret)
            if ms is not None:
                gouts = sorted(a or "" for _, a in ms)
        shapes = ep.get("input_shapes", [])
        if any(s.startswith("struct") for s in shapes) and "bare-loc" in shapes:
            key = "msl:io-struct-with-bare-location-arg"
        else:
            key = "msl:stage-io"
        if (gsin, gbins, gouts) != (wsin, wbins, wouts):
            viol(key, "MSL stage interface of %s: stage_in %s builtins %s outputs %s; expected %s / %s / %s"
                 % (ep["name"], gsin, gbins, gouts, wsin, wbins, wouts), cfg)
    for k, v in epn.items():
        if k not in {e["name"] for e in truth["eps"]}:
            viol("msl:reflection-entry-point-extra", "TranslationInfo.EntryPointNames lists %s which is no entry point" % k, cfg)
    reported = set(epn.values())
    for n in entries:
        if n not in reported:
            viol("msl:reflection-entry-point-unreported", "entry function %s of the text is not in TranslationInfo.EntryPointNames" % n, cfg)


GLSL_Q = {("flat", "center"): ["flat"], ("perspective", "center"): ["smooth"], ("perspective", "centroid"): ["smooth", "centroid"],
          ("perspective", "sample"): ["smooth", "sample"], ("linear", "center"): ["noperspective"],
          ("linear", "centroid"): ["noperspective", "centroid"], ("linear", "sample"): ["noperspective", "sample"]}


def check_glsl(ctx, st, src, truth, cfg, outs, model, viol):
    by_name = {e["name"]: e for e in truth["resources"]}
    by_key = {(e["group"], e["binding"]): e for e in truth["resources"] if e["group"] is not None}
    mg = {g["name"]: g for g in model["globals"]}
    explicit = (cfg["version"][0] > 3 or (cfg["version"][0] == 3 and cfg["version"][1] >= 10)) if cfg["version"][2] \
        else (cfg["version"][0] > 4 or (cfg["version"][0] == 4 and cfg["version"][1] >= 20))
    supports_compute = (cfg["version"][0] > 3 or (cfg["version"][0] == 3 and cfg["version"][1] >= 10)) if cfg["version"][2] \
        else (cfg["version"][0] > 4 or (cfg["version"][0] == 4 and cfg["version"][1] >= 30))
    bases = [cfg.get(k, 0) for k in ("uniform_base", "storage_base", "texture_base", "sampler_base")]
    for ep in truth["eps"]:
        o = outs.get(ep["name"])
        if o is None or "text" not in o:
            err = (o or {}).get("err") or str((o or {}).get("panic"))
            st.add("glsl_rejected")
            # an older GLSL version may legitimately not support a feature: not an interface matter
            continue
        text, info = o["text"], o["info"]
        decls = T.glsl_decls(text)
        suffix = ifacegen.STAGE_SUFFIX[ep["stage"]]
        used = {by_name[n]["name"] for n in ep["uses"]}
        want_keys = {(by_name[n]["group"], by_name[n]["binding"]) for n in used
                     if by_name[n]["group"] is not None and by_name[n]["kind"] != "samp"}
        got_keys = {}
        for d in decls:
            if d["key"] is None:
                continue
            if d["suffix"] != suffix:
                viol("glsl:stage-suffix", "GLSL %s: %s carries the suffix of another stage" % (ep["name"], d["name"]), cfg)
            got_keys.setdefault(d["key"], []).append(d)
        st.add("glsl_entry_points_compared")
        if set(got_keys) != want_keys:
            viol("glsl:declared-resources", "GLSL %s declares resources %s, the entry point uses %s" % (ep["name"], sorted(got_keys), sorted(want_keys)), cfg)
        for k, ds in got_keys.items():
            e = by_key.get(k)
            if e is None:
                viol("glsl:unknown-resource", "GLSL %s declares _group_%d_binding_%d which is no resource of the module" % ((ep["name"],) + k), cfg)
                continue
            want = mg[e["name"]]["glsl_binding"]
            for d in ds[:1]:
                if d["binding"] != want:
                    viol("glsl:layout-binding", "GLSL %s: layout(binding) of @group(%d) @binding(%d) is %s, model %s (map %s, version %s)"
                         % (ep["name"], k[0], k[1], d["binding"], want, cfg.get("binding_map"), cfg["version"]), cfg)
                if any(bases) and d["binding"] is not None and d["binding"] == want:
                    base = bases[1] if d["storage"] else (bases[2] if d["sampler"] or d["image"] else bases[0])
                    if base:
                        viol("glsl:binding-base-ignored",
                             "GLSL: Uniform/Storage/Texture/SamplerBindingBase = %s have no effect on layout(binding = %d)" % (bases, d["binding"]), cfg)
        # ---- varyings
        want_v = set()
        for it in ep["inputs"] + ep["outputs"]:
            if "loc" in it:
                want_v.add((it["dir"], it["loc"] + (it.get("blend_src") or 0)))
        vs = T.glsl_varyings(text)
        got_v = {(v["dir"], v["loc_name"]) for v in vs}
        if got_v != want_v:
            viol("glsl:varyings", "GLSL %s declares varyings %s, the entry point has %s" % (ep["name"], sorted(got_v), sorted(want_v)), cfg)
        for v in vs:
            its = [it for it in ep["inputs"] + ep["outputs"] if "loc" in it and it["dir"] == v["dir"]
                   and it["loc"] + (it.get("blend_src") or 0) == v["loc_name"]]
            if not its:
                continue
            it = its[0]
            if v["location"] is not None and v["location"] != it["loc"]:
                viol("glsl:layout-location", "GLSL %s: %s has layout(location = %d), the source says %d" % (ep["name"], v["name"], v["location"], it["loc"]), cfg)
            if it.get("blend_src") is not None and v["location"] is not None and v["index"] != it["blend_src"]:
                viol("glsl:layout-index", "GLSL %s: %s has index %s, the source says blend_src %d" % (ep["name"], v["name"], v["index"], it["blend_src"]), cfg)
            interpolated = (ep["stage"] == "vertex" and v["dir"] == "out") or (ep["stage"] == "fragment" and v["dir"] == "in")
            if interpolated:
                kind = it.get("kind") or "perspective"
                if ifacegen.is_int(it["type"]):
                    kind = "flat"
                samp = "center" if kind == "flat" else (it.get("samp") or "center")
                if sorted(v["quals"]) != sorted(GLSL_Q[(kind, samp)]):
                    viol("glsl:interpolation", "GLSL %s: %s has qualifiers %s, expected %s" % (ep["name"], v["name"], v["quals"], GLSL_Q[(kind, samp)]), cfg)
            elif [q for q in v["quals"] if q != "invariant"]:
                viol("glsl:interpolation", "GLSL %s: %s must not carry interpolation qualifiers: %s" % (ep["name"], v["name"], v["quals"]), cfg)
        # ---- reflection, both directions
        blocks = {d["block"]: d for d in decls if d["block"]}
        rep = info.get("Uniforms") or []
        for u in rep:
            d = blocks.get(u["BlockName"])
            if d is None:
                viol("glsl:reflection-block-untrue", "TranslationInfo.Uniforms reports block %s which the text does not declare" % u["BlockName"], cfg)
                continue
            if d["key"] != (u["Binding"]["Group"], u["Binding"]["Binding"]):
                viol("glsl:reflection-block-binding", "block %s: reported binding %s, declared instance %s" % (u["BlockName"], u["Binding"], d["key"]), cfg)
            if d["storage"] != u["IsStorage"]:
                viol("glsl:reflection-block-kind", "block %s: IsStorage=%s but declared with %s" % (u["BlockName"], u["IsStorage"], "buffer" if d["storage"] else "uniform"), cfg)
        repn = {u["BlockName"] for u in rep}
        for bn, d in blocks.items():
            if d["key"] is not None and bn not in repn:
                viol("glsl:reflection-block-missing", "block %s is declared but absent from TranslationInfo.Uniforms" % bn, cfg)
        pairs = info.get("TextureSamplerPairs") or []
        declared_samplers = {d["name"] for d in decls if d["sampler"]}
        for p in pairs:
            if p not in declared_samplers:
                viol("glsl:reflection-pair-untrue", "TranslationInfo.TextureSamplerPairs reports %s which the text does not declare as a sampler uniform" % p, cfg)
        if len(set(pairs)) != len(pairs):
            viol("glsl:reflection-pair-duplicate", "TranslationInfo.TextureSamplerPairs lists a pair twice: %s" % pairs, cfg)
        sampled = {t for t, sm in ep["pairs"] if sm is not None}
        for n in declared_samplers:
            if n not in pairs:
                km = T.G_KEY.search(n)
                e = by_key.get((int(km.group(1)), int(km.group(2)))) if km else None
                if e is not None and e["name"] not in sampled:
                    viol("glsl:reflection-texture-without-sampler-unreported",
                         "GLSL: texture %s is only read with textureLoad; it is declared as sampler uniform %s but reported neither in "
                         "TranslationInfo.TextureSamplerPairs nor in TextureMappings" % (e["name"], n), cfg)
                else:
                    viol("glsl:reflection-pair-missing", "sampler uniform %s is declared but absent from TranslationInfo.TextureSamplerPairs" % n, cfg)
        tm = {k: v for k, v in info.get("TextureMappings") or []}
        for n in declared_samplers:
            km = T.G_KEY.search(n)
            if n not in tm:
                if n not in pairs:
                    continue                      # reported above
                viol("glsl:reflection-mapping-missing", "sampler uniform %s has no TranslationInfo.TextureMappings entry" % n, cfg)
            elif km and (tm[n]["TextureBinding"]["Group"], tm[n]["TextureBinding"]["Binding"]) != (int(km.group(1)), int(km.group(2))):
                viol("glsl:reflection-mapping-untrue", "TextureMappings[%s] names texture %s" % (n, tm[n]["TextureBinding"]), cfg)
            elif tm[n].get("SamplerBinding") is not None:
                sb = (tm[n]["SamplerBinding"]["Group"], tm[n]["SamplerBinding"]["Binding"])
                e = by_key.get(sb)
                if e is None or e["kind"] != "samp" or e["name"] not in used:
                    viol("glsl:reflection-mapping-untrue", "TextureMappings[%s] names sampler %s which the entry point does not use" % (n, sb), cfg)
        for n in tm:
            if n not in declared_samplers:
                viol("glsl:reflection-mapping-untrue", "TextureMappings reports %s which the text does not declare" % n, cfg)
        epn = {k: v for k, v in info.get("EntryPointNames") or []}
        if epn.get(ep["name"]) != "main" or not re.search(r"^void main\(\)", text, re.M):
            viol("glsl:reflection-entry-point", "TranslationInfo.EntryPointNames[%s] = %s; the text defines main(): %s"
                 % (ep["name"], epn.get(ep["name"]), bool(re.search(r"^void main\(\)", text, re.M))), cfg)


# ---------------------------------------------------------------------------

def run_model_parallel(exe, vals, workers=6):
    """vcheck.run_model over several processes (the extracted tool is single-threaded)"""
    if len(vals) < 2 * workers:
        return vcheck.run_model(exe, vals) if vals else []
    from concurrent.futures import ThreadPoolExecutor
    parts = [vals[i::workers] for i in range(workers)]
    with ThreadPoolExecutor(workers) as ex:
        outs = list(ex.map(lambda p: vcheck.run_model(exe, p), parts))
    res = [None] * len(vals)
    for w, o in enumerate(outs):
        res[w::workers] = o
    return res


def multi_runs(exe, groups):
    """groups: list of (ir, [run...]); returns the flat list of results in order ({"ok":False,...} replicated on a decode error)"""
    outs = run_model_parallel(exe, [{"ir": ir, "runs": runs} for ir, runs in groups])
    flat = []
    for (ir, runs), o in zip(groups, outs):
        if o.get("ok") and "results" in o:
            flat += o["results"]
        else:
            flat += [o] * len(runs)
    return flat


def spv_key(mm):
    d = (mm.get("detail") or "").strip().replace(" ", "+")
    if d.startswith("extra-variable"):
        d += "#%d" % mm["index"]
    return "spv:%s%s" % (mm["kind"], (":" + d) if d else "")


def run_generated(ctx, tools, exe, st, n_modules, offset=0):
    rng = ctx.rng.fork("gen")
    mods = []
    jobs = []
    for i in range(n_modules):
        r = rng.fork("m%d" % (offset + i))
        src, truth = ifacegen.generate(r, offset + i)
        spv = [{"tag": "old", "version": r.choice(SPV_VERSIONS_OLD), "force_point_size": r.chance(1, 3)},
               {"tag": "new", "version": r.choice(SPV_VERSIONS_NEW), "force_point_size": r.chance(1, 3)}]
        h, m, g = random_hlsl_cfgs(r, truth), random_msl_cfgs(r, truth), random_glsl_cfgs(r, truth)
        mods.append({"src": src, "truth": truth, "spv": spv, "hlsl": h, "msl": m, "glsl": g})
        jobs.append({"id": i, "src": src, "want": ["ir", "validate", "spv", "hlsl", "msl", "glsl"],
                     "opts": {"spv": spv, "hlsl": h, "msl": m, "glsl": g}})
    res = nagarun.parallel_batches(tools["ifacedrive"], "compile", jobs, per_job_timeout=30.0, chunk=16)
    # a timeout on a loaded machine is not a finding: give those jobs one more, generous, try on their own
    late = [j for j in jobs if (res.get(j["id"]) or {}).get("crash") == "timeout"]
    if late:
        res.update(nagarun.run_batch(tools["ifacedrive"], "compile", late, per_job_timeout=240.0, chunk=1))
        st.add("retried_after_timeout", len(late))
    # ---- model runs (one decode of the IR per module)
    groups, meta = [], []
    for i, md in enumerate(mods):
        r = res.get(i)
        if r is None or "ir" not in r:
            continue
        runs = []
        for c in md["spv"]:
            o = r["spv"].get(c["tag"], {})
            if "words" in o:
                runs.append({"mode": "spv", "words": o["words"], "fps": c["force_point_size"]})
                meta.append((i, "spv", c))
        ncfg = max(len(md["hlsl"]), len(md["msl"]), len(md["glsl"]))
        for k in range(ncfg):
            h, m, g = md["hlsl"][k % len(md["hlsl"])], md["msl"][k % len(md["msl"])], md["glsl"][k % len(md["glsl"])]
            v = {"mode": "text"}
            v.update(model_text_opts(h, m, g))
            runs.append(v)
            meta.append((i, "text", (h if k < len(md["hlsl"]) else None, m if k < len(md["msl"]) else None, g if k < len(md["glsl"]) else None)))
        groups.append((r["ir"], runs))
    outs = multi_runs(exe, groups)
    distinct = set()
    for (i, kind, cfg), o in zip(meta, outs):
        md = mods[i]
        r = res[i]
        src, truth = md["src"], md["truth"]

        def viol(key, what, c, _src=src, _truth=truth, _r=r):
            st.add("violations_raised")
            ctx.violation(what, files={"module.wgsl": _src, "options.json": json.dumps(c, indent=1, default=str),
                                       "truth.json": json.dumps(_truth, indent=1)}, key=key,
                          broken="correspondence model = emitted code (%s)" % key.split(":")[0])
        if not o.get("ok"):
            viol("model:decode", "the IR dump does not decode: %s" % o.get("err"), cfg)
            continue
        if kind == "spv":
            st.add("spv_binaries_checked")
            if not o.get("decoded"):
                viol("spv:undecodable", "the emitted SPIR-V is not a well-formed word stream", cfg)
                continue
            if o["version"] != (((cfg["version"] >> 8) << 16) | ((cfg["version"] & 0xff) << 8)):
                viol("spv:version-word", "header version %#x, requested %#x" % (o["version"], cfg["version"]), cfg)
            ok = compare_truth_with_model(ctx, st, src, truth, o["expected"], cfg["force_point_size"], cfg["tag"])
            for mm in o["mismatches"]:
                st.add("spv_mismatch")
                viol(spv_key(mm), "SPIR-V %d.%d%s: %s of %s%s: %s" % (cfg["version"] >> 8, cfg["version"] & 0xff,
                                                                   " ForcePointSize" if cfg["force_point_size"] else "",
                                                                   mm["kind"], mm["name"] or "global", " #%d" % mm["index"] if mm["kind"] == "global" else "",
                                                                   mm.get("detail")), cfg)
            distinct.add(("spv", src, cfg["version"], cfg["force_point_size"]))
        else:
            h, m, g = cfg
            if h is not None:
                check_hlsl(ctx, st, src, truth, h, r["hlsl"].get(h["tag"], {}), o, viol)
                distinct.add(("hlsl", src, json.dumps(h, sort_keys=True)))
            if m is not None:
                check_msl(ctx, st, src, truth, m, r["msl"].get(m["tag"], {}), o, viol)
                distinct.add(("msl", src, json.dumps(m, sort_keys=True)))
            if g is not None:
                check_glsl(ctx, st, src, truth, g, r["glsl"].get(g["tag"], {}), o, viol)
                distinct.add(("glsl", src, json.dumps(g, sort_keys=True)))
    for i, md in enumerate(mods):
        r = res.get(i)
        if r is None or "crash" in r or "panic" in r:
            ctx.violation("naga crashed on a generated module: %s" % ((r or {}).get("crash") or (r or {}).get("panic")),
                          files={"module.wgsl": md["src"]}, key="crash")
        elif "err" in r:
            st.add("generated_rejected")
            ctx.violation("a valid generated module was rejected at %s: %s" % (r.get("stage"), r["err"]),
                          files={"module.wgsl": md["src"]}, key="rejected:%s" % re.sub(r"\d+", "N", r["err"])[:60])
        elif r.get("validate"):
            ctx.violation("a valid generated module fails validation: %s" % r["validate"][:2],
                          files={"module.wgsl": md["src"]}, key="invalid:%s" % re.sub(r"\d+", "N", r["validate"][0])[:60])
    for md in (mods[:2] if offset == 0 else []):
        ctx.sample({"generated_module": md["src"][:700],
                    "entry_points": [{"name": e["name"], "stage": e["stage"], "uses": e["uses"], "input_shapes": e["input_shapes"]} for e in md["truth"]["eps"]],
                    "spv": md["spv"], "hlsl": md["hlsl"][1], "msl": md["msl"][3], "glsl": md["glsl"][0]})
    return len(distinct)


def run_probes(ctx, tools, exe, st):
    """every spelling of the attribute arguments WGSL allows must bind at the same place"""
    probes = ifacegen.attribute_form_probes()
    jobs = [{"id": i, "src": p[1], "want": ["ir", "spv"], "opts": {"spv": [{"tag": "v", "version": 0x0103}]}} for i, p in enumerate(probes)]
    res = nagarun.run_batch(tools["ifacedrive"], "compile", jobs, per_job_timeout=30.0, chunk=32)
    vals, meta = [], []
    for i, (tag, src, want) in enumerate(probes):
        r = res.get(i) or {}
        if "ir" not in r:
            ctx.violation("attribute spelling '%s' is rejected: %s" % (tag, r.get("err") or r.get("crash")),
                          files={"module.wgsl": src}, key="attr-form:%s:rejected" % tag)
            continue
        vals.append((r["ir"], [{"mode": "spv", "words": (r["spv"]["v"].get("words") or []), "fps": False}]))
        meta.append((tag, src, want))
    outs = multi_runs(exe, vals)
    if meta:
        ctx.sample({"attribute_probe": meta[1][0], "source": meta[1][1], "source_says": meta[1][2]})
    for (tag, src, want), o in zip(meta, outs):
        st.add("attribute_probes")
        if not o.get("ok"):
            continue
        exp = o["expected"]
        got = None
        if want["kind"] == "resource":
            g = exp["globals"][0] if exp["globals"] else {}
            got = (g.get("group"), g.get("binding"))
            good = got == (want["group"], want["binding"])
        elif want["kind"] == "location":
            ios = exp["eps"][0].get("ios", []) if exp["eps"] else []
            got = sorted((d["class"], d["loc"]) for d in ios)
            good = got == [(1, want["in"]), (3, want["out"])]
        else:
            modes = exp["eps"][0].get("modes", []) if exp["eps"] else []
            got = modes
            good = modes == [[17, want["size"]]]
        if not good:
            ctx.violation("attribute spelling '%s': the source says %s, the lowered IR says %s (argument silently ignored or misread)"
                          % (tag, want, got), files={"module.wgsl": src}, key="attr-form:%s" % tag,
                          broken="correspondence source attributes = IR bindings (lowerer)")
        for mm in o.get("mismatches", []):
            ctx.violation("attribute probe '%s': SPIR-V %s %s" % (tag, mm["kind"], mm.get("detail")), files={"module.wgsl": src}, key=spv_key(mm))


def run_corpus(ctx, tools, exe, st, limit):
    """the repository's own shaders through the verified SPIR-V checker (old and new interface rules)"""
    corp = nagarun.corpus()
    rng = ctx.rng.fork("corpus")
    if limit < len(corp):
        corp = rng.shuffle(corp)[:limit]
    jobs = [{"id": n, "src": s, "want": ["ir", "spv"],
             "opts": {"spv": [{"tag": "v13", "version": 0x0103}, {"tag": "v14", "version": 0x0104},
                              {"tag": "v10fps", "version": 0x0100, "force_point_size": True}]}} for n, s in corp]
    res = nagarun.parallel_batches(tools["ifacedrive"], "compile", jobs, per_job_timeout=30.0, chunk=12)
    vals, meta = [], []
    for n, s in corp:
        r = res.get(n) or {}
        if "ir" not in r:
            continue
        runs = []
        for tag, o in (r.get("spv") or {}).items():
            if "words" in o:
                runs.append({"mode": "spv", "words": o["words"], "fps": tag.endswith("fps")})
                meta.append((n, s, tag))
        vals.append((r["ir"], runs))
    outs = multi_runs(exe, vals)
    for (n, s, tag), o in zip(meta, outs):
        if not o.get("ok"):
            st.add("corpus_undecodable_ir")
            continue
        if not o.get("decoded"):
            ctx.violation("corpus %s (%s): emitted SPIR-V is not a well-formed word stream" % (n, tag), files={"module.wgsl": s}, key="spv:undecodable")
            continue
        st.add("corpus_binaries_checked")
        for mm in o["mismatches"]:
            if mm["kind"] == "unsupported":
                st.add("corpus_out_of_fragment")
                continue
            ctx.violation("corpus %s (%s): %s of %s: %s" % (n, tag, mm["kind"], mm["name"] or "global #%d" % mm["index"], mm.get("detail")),
                          files={"module.wgsl": s}, key=spv_key(mm))
    return len(meta)


def toml_configs():
    """per-shader option files of the snapshot corpus that carry binding maps -> (name, source, hlsl cfg, msl cfg, glsl cfg)"""
    import tomllib
    d = os.path.join(vcheck.REPO, "snapshot", "testdata", "in")
    out = []
    for f in sorted(os.listdir(d)):
        if not f.endswith(".toml"):
            continue
        try:
            with open(os.path.join(d, f), "rb") as fh:
                t = tomllib.load(fh)
            with open(os.path.join(d, f[:-5] + ".wgsl"), encoding="utf-8") as fh:
                src = fh.read()
        except Exception:
            continue
        h = m = g = None
        hs = t.get("hlsl") or {}
        if isinstance(hs.get("binding_map"), list):
            bm = []
            for e in hs["binding_map"]:
                rb, bt = e.get("resource_binding", {}), e.get("bind_target", {})
                if "binding_array_size" in bt or "dynamic_storage_buffer_offsets_index" in bt:
                    bm = None
                    break
                bm.append([rb.get("group", 0), rb.get("binding", 0), bt.get("space", 0), bt.get("register", 0)])
            if bm:
                h = {"tag": "th", "fake": bool(hs.get("fake_missing_bindings", False)), "binding_map": bm}
        ms = t.get("msl") or {}
        if isinstance(ms.get("per_entry_point_map"), dict):
            per, okm = {}, True
            for ep, v in ms["per_entry_point_map"].items():
                resl = []
                for e in v.get("resources", []):
                    rb, bt = e.get("resource_binding", {}), e.get("bind_target", {})
                    sm = bt.get("sampler")
                    if isinstance(sm, dict) and "Inline" in sm or "external_texture" in bt or "binding_array_size" in bt:
                        okm = False
                        break
                    resl.append([rb.get("group", 0), rb.get("binding", 0), bt.get("buffer", -1), bt.get("texture", -1),
                                 sm.get("Resource", -1) if isinstance(sm, dict) else -1])
                per[ep] = {"resources": resl}
                if "sizes_buffer" in v:
                    per[ep]["sizes_buffer"] = v["sizes_buffer"]
            if okm and per:
                m = {"tag": "tm", "fake": bool(ms.get("fake_missing_bindings", False)), "per_ep": per}
        gs = t.get("glsl") or {}
        if isinstance(gs.get("binding_map"), list):
            bm = [[e.get("resource_binding", {}).get("group", 0), e.get("resource_binding", {}).get("binding", 0), e.get("bind_target", 0)]
                  for e in gs["binding_map"]]
            g = {"tag": "tg", "version": [4, 50, 0], "binding_map": bm}
        if h or m or g:
            out.append((f[:-5], src, h, m, g))
    return out


def run_corpus_toml(ctx, tools, exe, st):
    """snapshot shaders with the binding maps of their .toml option files: emitted slots = model"""
    cfgs = toml_configs()
    jobs = []
    for i, (name, src, h, m, g) in enumerate(cfgs):
        want = ["ir"] + (["hlsl"] if h else []) + (["msl"] if m else []) + (["glsl"] if g else [])
        jobs.append({"id": i, "src": src, "want": want, "opts": {"hlsl": [h] if h else [], "msl": [m] if m else [], "glsl": [g] if g else []}})
    res = nagarun.run_batch(tools["ifacedrive"], "compile", jobs, per_job_timeout=60.0, chunk=8)
    groups, meta = [], []
    for i, (name, src, h, m, g) in enumerate(cfgs):
        r = res.get(i) or {}
        if "ir" not in r:
            continue
        groups.append((r["ir"], [dict({"mode": "text"}, **model_text_opts(h or {"fake": True}, m or {"fake": False}, g or {"version": [4, 50, 0]}))]))
        meta.append(i)
    outs = multi_runs(exe, groups)
    for i, o in zip(meta, outs):
        name, src, h, m, g = cfgs[i]
        r = res[i]
        if not o.get("ok"):
            continue

        def viol(key, what, c, _src=src, _name=name):
            ctx.violation("corpus %s with its .toml binding map: %s" % (_name, what),
                          files={"module.wgsl": _src, "options.json": json.dumps(c, indent=1)}, key=key,
                          broken="correspondence model = emitted code (%s)" % key.split(":")[0])
        plain = {}
        for gl in o["globals"]:
            plain[gl["name"]] = gl
        if h and "text" in (r.get("hlsl") or {}).get("th", {}):
            regs, _ = T.hlsl_registers(r["hlsl"]["th"]["text"])
            mapped = {(x[0], x[1]) for x in h["binding_map"]}
            for gl in o["globals"]:
                if gl["group"] is None or gl["kind"] == 2 or gl["hlsl_class"] == "":
                    continue
                got = regs.get(gl["name"]) or regs.get(gl["name"] + "_")
                if got is None:
                    st.add("toml_hlsl_name_not_found")
                    continue
                if (gl["group"], gl["binding"]) not in mapped and not h["fake"]:
                    viol("hlsl:absent-binding-without-fake:no-error", "HLSL: @group(%d) @binding(%d) absent from the map, no fake bindings, yet compiled" % (gl["group"], gl["binding"]), h)
                    continue
                st.add("toml_hlsl_registers_compared")
                okc = got[0] in ("t", "u") if gl["hlsl_class"] == "h" else got[0] == gl["hlsl_class"]
                if not okc or got[1:] != (gl["hlsl_register"], gl["hlsl_space"]):
                    viol("hlsl:register", "HLSL register of %s: text %s, model class %s register %d space %d"
                         % (gl["name"], got, gl["hlsl_class"], gl["hlsl_register"], gl["hlsl_space"]), h)
        if m and "text" in (r.get("msl") or {}).get("tm", {}):
            entries = T.msl_entries(r["msl"]["tm"]["text"])
            byh = {gl["handle"]: gl for gl in o["globals"]}
            for ep in o["eps"]:
                ent = entries.get(ep["name"]) or entries.get(ep["name"] + "_")
                if ent is None:
                    st.add("toml_msl_entry_not_found")
                    continue
                got = {p: T.msl_resource_slot(a) for _, p, a in ent["params"]}
                mapped = {(x[0], x[1]) for x in m["per_ep"].get(ep["name"], {}).get("resources", [])}
                for sl in ep["msl"]:
                    gl = byh[sl["handle"]]
                    nm = gl["name"] if gl["name"] in got else gl["name"] + "_"
                    if nm not in got:
                        st.add("toml_msl_name_not_found")
                        continue
                    if ep["name"] in m["per_ep"] and (gl["group"], gl["binding"]) not in mapped and not m["fake"]:
                        viol("msl:absent-binding-without-fake:raw-binding-fallback",
                             "MSL: @group(%d) @binding(%d) absent from the map of %s, no fake bindings, yet compiled" % (gl["group"], gl["binding"], ep["name"]), m)
                        continue
                    kind = ("buffer", "texture", "sampler")[gl["kind"]]
                    want = "fake" if sl["slot"] == "fake" else (kind, sl["slot"])
                    st.add("toml_msl_slots_compared")
                    if got[nm] != want:
                        viol("msl:resource-slots", "MSL slot of %s in %s: text %s, model %s" % (gl["name"], ep["name"], got[nm], want), m)
        if g and (r.get("glsl") or {}).get("tg"):
            bykey = {(gl["group"], gl["binding"]): gl for gl in o["globals"] if gl["group"] is not None}
            for epn, eo in r["glsl"]["tg"].items():
                if "text" not in eo:
                    continue
                for d in T.glsl_decls(eo["text"]):
                    gl = bykey.get(d["key"])
                    if gl is None:
                        continue
                    st.add("toml_glsl_bindings_compared")
                    if d["binding"] != gl["glsl_binding"]:
                        viol("glsl:layout-binding", "GLSL %s: layout(binding) of @group(%d) @binding(%d) is %s, model %s"
                             % (epn, d["key"][0], d["key"][1], d["binding"], gl["glsl_binding"]), g)
    return len(meta)


def run(ctx):
    tools = vcheck.build_harness(["goextract", "ifacedrive"])
    ok, failed, log = vcheck.proof_step(
        ctx, "Props/C17.v", MODEL_FILES,
        gen_writer=lambda: gen.regenerate(tools, ["irenums", "spviface"]),
        extra_obligation_files=PROOF_FILES)
    ctx.cov["trusted_base"] += [
        "translator: harness/cmd/goextract (go/ast switch tables, const blocks, map literal, function source) + gen.py regexes over the "
        "go/printer-normalised source of builtinToSPIRV / emitEntryPoints / addInterpolationDecorations -> coq/Gen/SpvIfaceEnums.v, coq/Gen/IrEnums.v",
        "shared IR decoder coq/IR/Decode.v (reflection dump -> IR/Syntax) and harness/common/dump.go; coq/Spv/Binary.v decoder (proved round trip)",
        "extraction: ExtrOcamlBasic only; generic JSON driver ocaml/common/driver.ml; OCaml 4.13.1",
        "specification transcriptions: coq/Iface/SpvSpec.v (SPIR-V 1.6 sections 3.3/3.6/3.7/3.20/3.21, Vulkan VUIDs on Flat/Invariant, WGSL 12.3.1.1 builtin table) "
        "and the generator's own reading of WGSL attributes (lib/ifacegen.py, checks/c17.py truth_io)",
        "text readers lib/ifacetext.py (regular expressions over HLSL register()/semantics, MSL [[...]] attributes, GLSL layout()); "
        "harness/cmd/ifacedrive (option maps from JSON)",
        "not modelled: storage-texture access qualifiers (NonReadable/NonWritable on images), binding arrays, external textures, "
        "mesh/task stages, vertex pulling, HLSL NumWorkGroups helper buffer, MSL sizes buffer / immediates slots, "
        "HLSL/MSL/GLSL stage-IO emission is compared by readers only (no Coq model)",
    ]
    ctx.assumptions = [
        "module-scope OpVariables other than Input/Output appear in the declaration order of the IR globals (checked: a count or decoration mismatch is reported)",
        "entry-point names are ASCII and unique (WGSL guarantees uniqueness)",
    ]
    st = Stats()
    broken = None
    if not ok:
        broken = "Coq development no longer checks: %s" % (failed or log[-800:])
    exe = None
    try:
        exe = ocamlbuild.build("iface")
    except Exception as e:                      # the model must stay runnable even if a proof file broke
        broken = (broken or "") + " extraction failed: %s" % str(e)[-400:]
    nd = 0
    if exe:
        total = ctx.scale(100, 3000)
        for off in range(0, total, 400):           # batches bound the memory held by IR dumps
            nd += run_generated(ctx, tools, exe, st, min(400, total - off), off)
        run_probes(ctx, tools, exe, st)
        nd += run_corpus(ctx, tools, exe, st, ctx.scale(36, 1000))
        nd += run_corpus_toml(ctx, tools, exe, st)
    ctx.cov["counters"] = st.c
    ctx.cov["evaluations"] = sum(st.c.get(k, 0) for k in ("spv_binaries_checked", "hlsl_registers_compared", "msl_entry_points_compared",
                                                          "glsl_entry_points_compared", "corpus_binaries_checked", "attribute_probes",
                                                          "hlsl_entry_points_compared"))
    ctx.cov["distinct_nontrivial"] = nd
    ctx.cov["traces_validated_against_impl"] = st.c.get("spv_binaries_checked", 0) + st.c.get("corpus_binaries_checked", 0)
    ctx.cov["rule"] = ("generated module x back-end configuration (SPIR-V version x ForcePointSize; HLSL binding map x fake; MSL per-entry-point "
                       "map x fake; GLSL version x binding map x bases), distinct by (source text, configuration); corpus shader x 3 SPIR-V "
                       "configurations; non-trivial = the module compiled and the checker/readers compared at least one entity")
    if broken and not ctx.violations:
        ctx.violation(broken + "\n(no module whose emitted interface differs from the source was found by the search)",
                      found_input=False, broken=broken)
    elif broken:
        ctx.cov["broken_tie"] = broken
