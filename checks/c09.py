"""C09 — lowering yields a well-formed, fully typed, deduplicated IR module.

Deciding method: Coq theorems (Props/C09.v) saying, for ALL modules, what an empty
verdict of the executable checker IR/Wf.v means: handles in range and strictly
backwards; no duplicate types; recorded types equal to an independently written
typifier's (which is a function of the expression prefix); emit discipline over every
execution path (IR/Paths.v); every path returns a value of the result type; stores and
calls typed.  Tie to /repo, on every run: (V) the extracted checker is run on the
reflection dump of every module naga.LowerWithSource returns for the corpus, for
hand-written templates and for generated programs, together with naga.Validate;
(R) the lowerer's needsPreEmit kinds, the shape of ensureBlockReturns and the
ir.MathFunction list are regenerated from the Go source and obligations on them
re-checked by coqc.  Search: a violated clause is reported with the (shrunk) program."""
import hashlib
import json
import os
import re

import c09gen
import gen
import nagarun
import ocamlbuild
import vcheck

LEVEL = "proof"

COQ_FILES = ["IR/Syntax.v", "IR/Decode.v", "IR/Infer.v", "IR/Paths.v", "IR/Wf.v", "IR/WfProofs.v", "IR/EmitProofs.v",
             "IR/ReturnProofs.v", "IR/TypesProofs.v", "IR/WfGenObl.v", "Registry/RegistryModel.v", "Registry/RegistryProofs.v"]


def funcs_of(ir):
    return ir["Functions"] + [e["Function"] for e in ir["EntryPoints"]]


def find_stmts(block, kind, out):
    for s in block or []:
        k = s["Kind"]
        if k["_t"] == kind:
            out.append(k)
        for f in ("Block", "Accept", "Reject", "Body", "Continuing"):
            if f in k:
                find_stmts(k[f], kind, out)
        for c in k.get("Cases", []) or []:
            find_stmts(c["Body"], kind, out)
    return out


def kind_name(fn, h):
    try:
        k = fn["Expressions"][h]["Kind"]
    except Exception:
        return "?"
    t = k["_t"]
    return t[4:] if t.startswith("Expr") else t


ARITH = {"Add", "Sub", "Mul", "Div", "Mod"}
CMP = {"Eq", "Ne", "Lt", "Le", "Gt", "Ge", "LogicalAnd", "LogicalOr"}


def normalise_clause(clause):
    """The checker names the expression kind (and the operator / math function) in the clause.
    Keys keep that detail only where it separates causes: for the type table clauses the kind,
    the operator class of a Binary (arith / cmp / bit) and the math function.  Where the kind
    only says where a wrong type surfaced (an unrecorded type; an ill-typed Store / Return /
    Call whose operand types come from elsewhere) the key is the clause alone."""
    if clause.startswith("types.unrecorded."):
        return "types.unrecorded"
    if clause.startswith("store.type."):
        return "store.type"
    m = re.match(r"^(.*)\.Binary\.(\w+)$", clause)
    if m:
        if m.group(1) == "types.mismatch":
            op = m.group(2)
            return "%s.Binary.%s" % (m.group(1), "arith" if op in ARITH else "cmp" if op in CMP else "bit")
        return m.group(1) + ".Binary"
    m = re.match(r"^(.*)\.Math(\w+)$", clause)
    if m and m.group(1) != "types.mismatch":
        return m.group(1) + ".Math"
    return clause


def violation_key(ir, clause, fnidx, h):
    clause = normalise_clause(clause)
    try:
        return violation_key0(ir, clause, fnidx, h)
    except Exception:
        # the module is so ill-formed that the key refinement itself cannot index it: the clause alone is the key
        return clause


def violation_key0(ir, clause, fnidx, h):
    """Stable key of a violation: the clause (which already names the expression kind /
    operator where the checker knows it) plus, for emit-discipline uses, the kind of the
    unevaluated expression and whether the using Store writes an atomic."""
    if clause.startswith("emit.use_unevaluated.") or clause == "emit.operand_unevaluated":
        fs = funcs_of(ir)
        fn = fs[fnidx] if fnidx < len(fs) else None
        key = clause + ":" + (kind_name(fn, h) if fn else "?")
        if fn and clause.endswith(".Store"):
            for st in find_stmts(fn["Body"], "StmtStore", []):
                if st["Value"] == h or st["Pointer"] == h:
                    pt = fn["ExpressionTypes"][st["Pointer"]]
                    v = pt.get("Value") or {}
                    base = v.get("Base")
                    if base is None and pt.get("Handle") is not None:
                        base = (ir["Types"][pt["Handle"]]["Inner"] or {}).get("Base")
                    if base is not None and base < len(ir["Types"]) and ir["Types"][base]["Inner"]["_t"] == "AtomicType":
                        key = clause + ":atomic"     # atomicStore: one cause whatever the value expression is
                        break
        return key
    return clause


def validate_key(msg):
    m = re.sub(r'"[^"]*"', '"_"', msg)
    m = re.sub(r"in function \S+", "in function _", m)
    m = re.sub(r"\d+", "N", m)
    m = re.sub(r"^in function _, statement N: ", "", m)
    m = re.sub(r"^global variable \"_\": ", "", m)
    return "validate:" + m[:80]


def compile_all(tools, programs):
    jobs = [{"id": i, "src": src, "want": ["ir", "validate"]} for i, (_n, src) in enumerate(programs)]
    return nagarun.parallel_batches(tools["nagadrive"], "compile", jobs, per_job_timeout=30.0, chunk=16)


def run_checker(exe, irs, workers=None):
    """irs: list of IR dumps -> list of checker outputs (parallel over chunks)."""
    from concurrent.futures import ThreadPoolExecutor
    workers = workers or max(1, vcheck.NCPU // 2)
    n = len(irs)
    if n == 0:
        return []
    size = max(1, (n + workers - 1) // workers)
    parts = [irs[i:i + size] for i in range(0, n, size)]
    out = []
    with ThreadPoolExecutor(len(parts)) as ex:
        for r in ex.map(lambda p: vcheck.run_model(exe, p), parts):
            out += r
    return out


def keys_of(tools, exe, src):
    """violation keys (checker + validator) of one program; None if it is not accepted"""
    res = compile_all(tools, [("x", src)]).get(0)
    if not res or "ir" not in res:
        return None
    out = run_checker(exe, [res["ir"]], workers=1)[0]
    ks = set()
    if out.get("ok"):
        for c, fn, h in out["violations"]:
            ks.add(violation_key(res["ir"], c, fn, h))
    else:
        ks.add("decode:" + out.get("err", "")[:60])
    for m in res.get("validate") or []:
        ks.add(validate_key(m))
    if res.get("validate_err"):
        ks.add("validate:error")
    return ks


def shrink(tools, exe, src, key, budget=60):
    """Greedy line/function removal keeping the program accepted and the key present."""
    lines = src.split("\n")
    tries = 0
    chunk = max(1, len(lines) // 4)
    while chunk >= 1 and tries < budget:
        i = 0
        changed = False
        while i < len(lines) and tries < budget:
            cand = lines[:i] + lines[i + chunk:]
            tries += 1
            ks = keys_of(tools, exe, "\n".join(cand))
            if ks is not None and key in ks:
                lines = cand
                changed = True
            else:
                i += chunk
        if not changed or chunk == 1:
            chunk //= 2
    return "\n".join(lines)


REG_DECLS = [
    ("a0", "var<private> a0: vec3<f32>;"), ("a1", "var<private> a1: array<vec3<f32>, 4>;"), ("a2", "var<private> a2: mat3x3<f32>;"),
    ("a3", "var<private> a3: array<f32, 4>;"), ("a4", "struct S1 { x: vec3<f32>, y: array<f32, 4>, z: mat3x3<f32> }\nvar<private> a4: S1;"),
    ("a5", "var<private> a5: vec3<i32>;"), ("a6", "var<private> a6: array<array<f32, 4>, 2>;"),
    ("a7", "alias F3 = vec3<f32>;\nvar<private> a7: F3;"), ("a8", "var<private> a8: vec2<u32>;"),
    ("a9", "var<workgroup> a9: atomic<u32>;"), ("b0", "struct S2 { p: S1, q: array<S1, 2> }\nvar<private> b0: S2;"),
    ("b1", "var<private> b1: array<vec3<f32>, 4>;"), ("b2", "var<private> b2: array<f32, 4>;"),
]


def expand_type(types, h, depth=0):
    """structural expansion of a type handle (names kept, handles replaced by what they denote)"""
    if h is None or h >= len(types) or depth > 20:
        return ("bad", h)
    t = types[h]
    inner = t["Inner"]
    k = inner["_t"]
    out = [t["Name"], k]
    for f in sorted(inner):
        v = inner[f]
        if f == "_t":
            continue
        if f == "Base" and isinstance(v, int):
            out.append((f, expand_type(types, v, depth + 1)))
        elif f == "Members":
            out.append((f, tuple((mb["Name"], mb["Offset"], expand_type(types, mb["Type"], depth + 1)) for mb in v)))
        else:
            out.append((f, json.dumps(v, sort_keys=True)))
    return tuple(out)


def registry_orders(ctx, tools, nperm):
    """C tie for the registry model: the same declarations in different orders (so the types are
    first mentioned in different orders) must give every variable the same structural type."""
    rng = ctx.rng.fork("registry")
    uses = "\n".join("    _ = %s;" % n if n != "a9" else "    _ = atomicLoad(&a9);" for n, _ in REG_DECLS)
    # a4 must be declared before b0 (S2 mentions S1): keep that pair ordered
    progs = []
    for k in range(nperm):
        ds = rng.shuffle(REG_DECLS) if k else list(REG_DECLS)
        names = [n for n, _ in ds]
        if names.index("a4") > names.index("b0"):
            i, j = names.index("a4"), names.index("b0")
            ds[i], ds[j] = ds[j], ds[i]
        progs.append(("registry/%d" % k, "\n".join(d for _, d in ds) + "\n@compute @workgroup_size(1) fn main() {\n" + uses + "\n}\n"))
    res = compile_all(tools, progs)
    ref = None
    compared = 0
    for i, (name, src) in enumerate(progs):
        r = res.get(i)
        if not r or "ir" not in r:
            ctx.violation("front end rejects the registry-order program %s: %s" % (name, (r or {}).get("err")),
                          files={"src.wgsl": src}, key="registry.rejected")
            continue
        types = r["ir"]["Types"]
        sig = {g["Name"]: expand_type(types, g["Type"]) for g in r["ir"]["GlobalVariables"]}
        if ref is None:
            ref = (sig, src)
        else:
            compared += 1
            if sig != ref[0]:
                diff = [n for n in sig if sig.get(n) != ref[0].get(n)]
                ctx.violation("type registry: declaration order changes the structural type of %s" % diff,
                              files={"first.wgsl": ref[1], "permuted.wgsl": src}, key="registry.order_dependent")
    return compared


def run(ctx):
    tools = vcheck.build_harness(["nagadrive", "goextract"])
    ok, failed, log = vcheck.proof_step(
        ctx, "Props/C09.v", COQ_FILES,
        gen_writer=lambda: gen.regenerate(tools, ["irenums", "c09preemit"]),
        extra_obligation_files=["IR/WfGenObl.v", "Registry/RegistryProofs.v"])
    ctx.cov["trusted_base"] += [
        "translator: harness/cmd/goextract + gen.py -> coq/Gen/IrEnums.v (ir enum numbering), coq/Gen/C09PreEmit.v (needsPreEmit case list, ensureBlockReturns case lists)",
        "readers: harness/common Dump (Go reflection -> JSON), coq/IR/Decode.v (JSON -> IR/Syntax.module; image/sampler/ray-query types and the result handle of RayQuery statements are dropped by the decoder: such types are exempt from the uniqueness clause and ExprRayQueryProceedResult is treated as always available)",
        "extraction: ExtrOcamlBasic only; generic JSON driver ocaml/common/driver.ml; OCaml 4.13.1",
        "execution-path semantics coq/IR/Paths.v (my reading of how backends walk a body: Emit evaluates its range in order; If/Switch/Loop structure; a Loop's break_if is read after the continuing block)",
        "the typing rules of coq/IR/Infer.v are my transcription of upstream naga's proc::typifier (not of /repo/ir/resolve.go); kinds without a rule (image, derivative, ray-query, subgroup, modf/frexp) are counted as uninferred and take their recorded type on trust",
        "NOT proved: that lowering of a well-typed WGSL program produces a module the checker accepts (typed_lowering_wf) and progress of an IR semantics (wf_safety); both are covered only by running the verified checker on real lowering output",
    ]
    ctx.assumptions = ["programs: the 172 corpus shaders, %d hand-written templates and generated WGSL accepted by the front end; "
                       "generated programs the front end rejects are skipped (counted)" % len(c09gen.TEMPLATES)]
    broken = None
    if not ok:
        broken = "Coq development no longer checks: %s" % (failed or log[-800:])
    exe = None
    try:
        exe = ocamlbuild.build("irwf")
    except Exception as e:   # extraction needs the development to compile
        broken = broken or ("extraction of the checker failed: %s" % str(e)[-600:])

    # ---- replay of a stored witness: check that one program only
    if getattr(ctx, "replay", None) and exe is not None:
        with open(os.path.join(ctx.replay, "src.wgsl")) as f:
            src = f.read()
        ks = keys_of(tools, exe, src)
        ctx.cov["evaluations"] = 1
        ctx.cov["rule"] = "replay of %s" % ctx.replay
        ctx.sample({"replay": ctx.replay, "keys": sorted(ks) if ks is not None else "rejected by the front end"})
        for k in sorted(ks or []):
            ctx.violation("IR contract clause violated: %s (replayed program)" % k, files={"src.wgsl": src}, key=k)
        return
    # ---- programs
    rng = ctx.rng.fork("c09")
    programs = [("corpus/" + n, s) for n, s in nagarun.corpus()]
    programs += [("template/%d" % i, t) for i, t in enumerate(c09gen.TEMPLATES)]
    ngen = int(os.environ.get("C09_NGEN") or ctx.scale(180, 6000))
    for i in range(ngen):
        programs.append(("gen/%d" % i, c09gen.generate(rng.fork("p%d" % i), 2 + i % 3)))
    # the stage-interface generator of C17 (every attribute order, IO structs, dual-source outputs, builtins) and the
    # shared typed generator (pointer lets, helpers called from continuing blocks, run-time subscripts)
    import ifacegen
    import wgslgen
    for i in range(ctx.scale(60, 1500)):
        programs.append(("iface/%d" % i, ifacegen.generate(rng.fork("if%d" % i), i)[0]))
    for i in range(ctx.scale(60, 1500)):
        programs.append(("typed/%d" % i, wgslgen.generate(rng.fork("ty%d" % i), {"atomics": i % 3 == 0})[1]))
    # statement forms with inlined operator operands (atomic read-modify-write / store / load with computed index and value)
    import opforms
    programs += [("opform/" + n, src) for n, src in opforms.programs()]
    results = compile_all(tools, programs)
    accepted = []
    rejected = {}
    crashed = 0
    for i, (name, src) in enumerate(programs):
        r = results.get(i)
        if r and "ir" in r:
            accepted.append((name, src, r))
        elif r and ("crash" in r or "panic" in r):
            crashed += 1        # C10's business; not counted here
        else:
            e = re.sub(r"\d+", "N", (r or {}).get("err") or "no result")[:90]
            rejected[e] = rejected.get(e, 0) + 1
            if name.startswith("corpus/") or name.startswith("template/"):
                ctx.violation("front end rejects %s: %s" % (name, (r or {}).get("err")), files={"src.wgsl": src},
                              key="rejected:" + name)
    per_clause = {}
    notes = {}
    totals = {"modules": 0, "functions": 0, "expressions": 0, "inferred": 0, "statements": 0, "types": 0}
    by_key = {}          # key -> list of (name, src, detail)
    distinct = set()
    outs = []
    if exe is not None:      # even when an obligation failed: the search below then finds the failing program
        outs = run_checker(exe, [r["ir"] for (_n, _s, r) in accepted])
    for (name, src, r), out in zip(accepted, outs):
        h = hashlib.sha256(json.dumps(r["ir"], sort_keys=True).encode()).hexdigest()
        if not out.get("ok"):
            by_key.setdefault("decode:" + out.get("err", "")[:60], []).append((name, src, out.get("err")))
            continue
        totals["modules"] += 1
        for k, kk in (("functions", "functions"), ("exprs", "expressions"), ("inferred", "inferred"), ("stmts", "statements"), ("types", "types")):
            totals[kk] += out[k]
        if out["functions"] >= 1 and out["exprs"] >= 5:
            distinct.add(h)
        for c, fn, hh in out["violations"]:
            per_clause[c] = per_clause.get(c, 0) + 1
            key = violation_key(r["ir"], c, fn, hh)
            fname = out["fn_names"][fn] if fn < len(out["fn_names"]) else "module"
            by_key.setdefault(key, []).append((name, src, "%s in function %s (index %d), handle %d" % (c, fname, fn, hh)))
        for c, fn, hh in out["notes"]:
            notes[c] = notes.get(c, 0) + 1
        for m in r.get("validate") or []:
            by_key.setdefault(validate_key(m), []).append((name, src, "naga.Validate: " + m))
            per_clause["validate"] = per_clause.get("validate", 0) + 1
        if r.get("validate_err"):
            by_key.setdefault("validate:error", []).append((name, src, "naga.Validate failed: " + r["validate_err"]))
    ctx.cov["registry_order_permutations_compared"] = registry_orders(ctx, tools, ctx.scale(8, 60))
    # ---- report
    nviol = 0
    for key in sorted(by_key):
        hits = by_key[key]
        # smallest witness; prefer a corpus/template program
        hits.sort(key=lambda x: (len(x[1]), x[0]))
        name, src, detail = hits[0]
        is_known = any(k.get("status") == "open" and k.get("match") == key for k in ctx._known)
        if not is_known and exe is not None and nviol < 4:
            try:
                src = shrink(tools, exe, src, key, budget=ctx.scale(40, 200))
            except Exception:
                pass
        what = ("IR contract clause violated: %s\n%d occurrence(s) in %d program(s); witness %s: %s"
                % (key, len(hits), len({x[0] for x in hits}), name, detail))
        if ctx.violation(what, files={"src.wgsl": src, "occurrences.txt": "\n".join("%s: %s" % (x[0], x[2]) for x in hits[:50])}, key=key):
            nviol += 1
    ctx.cov["per_clause_violations"] = dict(sorted(per_clause.items()))
    ctx.cov["violation_keys"] = {k: len(v) for k, v in sorted(by_key.items())}
    ctx.cov["notes"] = dict(sorted(notes.items()))
    ctx.cov["uninferred"] = {k[len("uninferred."):]: v for k, v in sorted(notes.items()) if k.startswith("uninferred.")}
    ctx.cov["totals"] = totals
    ctx.cov["programs"] = len(accepted)
    ctx.cov["program_sources"] = {"corpus": sum(1 for p in accepted if p[0].startswith("corpus/")),
                           "templates": sum(1 for p in accepted if p[0].startswith("template/")),
                           "generated_accepted": sum(1 for p in accepted if p[0].startswith("gen/")),
                           "generated_total": ngen, "rejected_by_front_end": rejected, "crashed": crashed}
    ctx.cov["clauses"] = ["handles", "abstract", "unique", "types", "emit", "return", "store", "call", "entry", "validate"]
    ctx.cov["evaluations"] = len(accepted)
    ctx.cov["distinct_nontrivial"] = len(distinct)
    ctx.cov["traces_validated_against_impl"] = totals["modules"]
    ctx.cov["rule"] = ("each accepted program is lowered by naga.LowerWithSource; the reflection dump of the module is checked by the "
                       "extracted verified checker (all clauses) and by naga.Validate; distinct = distinct IR dumps (sha256), "
                       "non-trivial = at least one function and five expressions")
    for (name, src, r), out in list(zip(accepted, outs))[-3:]:
        ctx.sample({"program": name, "head": src[:200], "functions": out.get("functions"), "exprs": out.get("exprs"),
                    "violations": out.get("violations", [])[:5]})
    if broken and not ctx.violations:
        ctx.violation(broken + "\n(no program violating the contract was found by the search)", found_input=False, broken=broken)
    elif broken:
        ctx.cov["broken_tie"] = broken
