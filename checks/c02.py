"""C02 — every emitted SPIR-V module is structurally valid.

Deciding method: a Gallina validator (coq/Spv/*.v: binary decoder, logical layout,
one definition per id, definitions dominate uses with dominance *defined* by a verified
graph search, block/terminator structure, structured control flow, unique non-aggregate
types, operand kinds and types per opcode, Vulkan decoration/interface rules,
capability/extension/version table) with machine-checked soundness theorems
(Props/C02.v), extracted to OCaml and run on every module naga emits (V tie) for the
172-shader corpus and generated programs x SPIR-V versions x option sets.  R tie: the
statement order of ModuleBuilder.Build() and the constants of spirv.go are regenerated
from /repo and compared with the specification tables by vm_compute.  The validator's
own sensitivity is re-measured on every run with word-level mutants of real modules."""
import json
import struct
import time

import c02gen
import gen
import nagarun
import ocamlbuild
import spvmut
import vcheck

LEVEL = "proof"

MODEL_FILES = ["Spv/Binary.v", "Spv/Graph.v", "Spv/Opcodes.v", "Spv/Validate.v", "Spv/Vulkan.v", "Spv/Caps.v",
               "Spv/Typecheck.v", "Spv/ValidateMain.v", "Spv/ValidateProofs.v", "Spv/Builder.v", "Spv/SpecNames.v"]

V = {"1.0": 0x100, "1.1": 0x101, "1.2": 0x102, "1.3": 0x103, "1.4": 0x104, "1.5": 0x105, "1.6": 0x106}

# (name, opts) — quick tier uses the first QUICK_SETS of them on the corpus
OPTION_SETS = [
    ("default-1.1", {}),
    ("v1.4-debug-pointsize-flipy-restrict", {"version": V["1.4"], "debug": True, "force_point_size": True, "adjust_coordinate_space": True,
                                            "bounds_image_load": 1, "bounds_image_store": 1, "bounds_index": 1}),
    ("v1.0-rzsw-noloopbound", {"version": V["1.0"], "force_loop_bounding": False, "bounds_image_load": 2,
                               "bounds_image_store": 2, "bounds_index": 2}),
    ("v1.6", {"version": V["1.6"]}),
    ("v1.3-rzsw-debug", {"version": V["1.3"], "debug": True, "bounds_image_load": 2, "bounds_image_store": 2, "bounds_index": 2}),
    ("v1.2-caps-restricted", {"version": V["1.2"], "caps_available": [0, 1, 9, 10, 11, 22, 39, 50, 43, 44, 45, 34, 49, 35, 32],
                              "ray_query_init_tracking": False, "use_storage_io16": False}),
    ("v1.5-debug-restrict-index", {"version": V["1.5"], "debug": True, "bounds_index": 1, "bounds_image_load": 2}),
    ("v1.0-restrict-pointsize", {"version": V["1.0"], "bounds_index": 1, "bounds_image_load": 1, "bounds_image_store": 1,
                                 "force_point_size": True}),
    ("v1.3-flipy", {"version": V["1.3"], "adjust_coordinate_space": True}),
    ("v1.4-caps-minimal", {"version": V["1.4"], "caps_available": [0, 1]}),
]
QUICK_SETS = 3

# fixed minimal programs for defects found by this check (kept so that the known-finding keys are
# stable and a repair is noticed); the program generator avoids these shapes
PROBES = [
    ("probe-restrict-uvec-coords", {"bounds_image_load": 1},
     "@group(0) @binding(0) var t: texture_2d<f32>;\n"
     "@fragment fn main() -> @location(0) vec4<f32> { return textureLoad(t, vec2<u32>(1u, 2u), 0); }\n"),
    ("probe-rzsw-multisampled", {"bounds_image_load": 2},
     "@group(0) @binding(0) var t: texture_multisampled_2d<f32>;\n"
     "@fragment fn main() -> @location(0) vec4<f32> { return textureLoad(t, vec2<i32>(1, 2), 1); }\n"),
    ("probe-rzsw-storage", {"bounds_image_load": 2},
     "@group(0) @binding(0) var t: texture_storage_2d<rgba8unorm, read>;\n"
     "@compute @workgroup_size(1) fn main() { let v = textureLoad(t, vec2<i32>(1, 2)); }\n"),
    ("probe-rzsw-storage-1d", {"bounds_image_load": 2},
     "@group(0) @binding(0) var t: texture_storage_1d<rgba8unorm, read>;\n"
     "@compute @workgroup_size(1) fn main() { let v = textureLoad(t, 1); }\n"),
    ("probe-f16-polyfill-component-access", {"use_storage_io16": False},
     "enable f16;\n@fragment fn main(@location(0) v: vec4<f16>) -> @location(0) vec4<f32> { return vec4<f32>(f32(v.w)); }\n"),
    ("probe-abstract-shift", {},
     "var<private> pv: i32 = 1;\n"
     "@compute @workgroup_size(1) fn main() { var acc: i32 = (4 << 19u) + pv; pv = acc; }\n"),
    ("probe-abstract-shift-select", {},
     "var<private> pv: i32 = 1;\n"
     "@compute @workgroup_size(1) fn main() { var acc = select(pv, (4 << 19u), pv == 2); pv = acc; }\n"),
    ("probe-sint-texture-component", {},
     "@group(0) @binding(0) var utex: texture_2d<i32>;\n"
     "@fragment fn main() -> @location(0) vec4<f32> { let v = f32(textureLoad(utex, vec2<i32>(1, 2), 0).x); return vec4<f32>(v); }\n"),
    ("probe-member-align-uniform", {},
     "struct Inner { @align(16) m0: u32, m1: f32 }\n"
     "struct U { m5: mat2x2<f32>, m6: f32, inner: Inner }\n"
     "@group(0) @binding(0) var<uniform> ub: U;\n"
     "@fragment fn main() -> @location(0) vec4<f32> { return vec4<f32>(ub.inner.m1 + ub.m6); }\n"),
]
# mutations that make every module they apply to invalid (the others may be harmless on some modules)
MUST_CATCH = ["duplicate_type", "instr_after_terminator", "swap_entry_point_and_execution_mode", "drop_block", "drop_binding",
              "drop_descriptor_set", "drop_location", "drop_builtin", "bound_off_by_one", "use_before_def", "redefine_id",
              "drop_terminator", "branch_into_other_function", "type_as_operand", "magic", "version_high_byte",
              "memory_model_twice", "variable_in_second_block", "store_operands_swapped"]


def instr_table(words):
    """[(opcode, start word offset, word count)] of a word stream"""
    out = []
    k = 5
    n = len(words)
    while k < n:
        wc = words[k] >> 16
        if wc == 0 or k + wc > n:
            break
        out.append((words[k] & 0xFFFF, k, wc))
        k += wc
    return out


def violation_key(words, v):
    """Stable key of a rule violation: rule | opcode | local context (opcodes around the
    offending instruction, or of the first user of a module-scope declaration)."""
    rule, idx, op = v["rule"], v["idx"], v["op"]
    tab = instr_table(words)
    ctxs = ""
    if 0 <= idx < len(tab):
        first_fn = next((k for k, t in enumerate(tab) if t[0] == 54), len(tab))
        if idx >= first_fn:
            prev = [str(tab[k][0]) for k in range(max(first_fn, idx - 2), idx)]
            ctxs = "prev:" + ",".join(prev)
        else:
            o, off, wc = tab[idx]
            rid = None
            if o in (41, 42, 43, 44, 46, 59) and wc > 2:
                rid = words[off + 2]
            elif 19 <= o <= 39 and wc > 1:
                rid = words[off + 1]
            user = None
            if rid is not None:
                for k in range(first_fn, len(tab)):
                    o2, off2, wc2 = tab[k]
                    if rid in words[off2 + 1:off2 + wc2]:
                        user = k
                        break
            if user is not None:
                ctxs = "use:%d,after:%d" % (tab[user][0], tab[user - 1][0])
            else:
                ctxs = "global"
    return "%s|op%d|%s" % (rule, op, ctxs)


def words_bytes(words):
    return struct.pack("<%dI" % len(words), *words)


def run_validator(exe, values, chunk=60):
    """vcheck.run_model over several processes (the extracted validator is single-threaded)."""
    if len(values) <= chunk:
        return vcheck.run_model(exe, values) if values else []
    from concurrent.futures import ThreadPoolExecutor
    parts = [values[i:i + chunk] for i in range(0, len(values), chunk)]
    out = []
    with ThreadPoolExecutor(max(1, vcheck.NCPU // 2)) as ex:
        for r in ex.map(lambda p: vcheck.run_model(exe, p), parts):
            out += r
    return out


def compile_all(tools, programs, optsets):
    """programs: [(name, src)], optsets: [(oname, opts)] -> [(name, oname, opts, src, result)]"""
    jobs = []
    meta = []
    for oname, opts in optsets:
        for name, src in programs:
            jobs.append({"id": len(jobs), "src": src, "opts": opts})      # corpus shaders: taken as valid
            meta.append((name, oname, opts, src))
    res = nagarun.parallel_batches(tools["spvdrive"], "compile", jobs, per_job_timeout=30.0, chunk=48)
    return [(m[0], m[1], m[2], m[3], res.get(i)) for i, m in enumerate(meta)]


def validate_modules(ctx, exe, compiled, stats, found):
    """Run the extracted validator on every emitted module; collect violations by key."""
    # "valid program" = accepted by naga's parser, lowerer and IR validator (safety net for generator bugs).
    # naga's validator reports `break` inside a switch that is not inside a loop as "break outside of loop";
    # that is valid WGSL (a C11/C08 matter), so this one message does not disqualify a program.
    def disqualified(r):
        return any("break outside of loop" not in e for e in (r.get("validate") or []))
    mods = [(n, o, opts, src, r["words"]) for (n, o, opts, src, r) in compiled if r and "words" in r and not disqualified(r)]
    for (n, o, opts, src, r) in compiled:
        if r is None or "crash" in r or "panic" in r:
            stats["compile_crash"] = stats.get("compile_crash", 0) + 1      # C10's business, counted only
        elif "words" not in r:
            stats["not_emitted"] = stats.get("not_emitted", 0) + 1
    outs = run_validator(exe, [m[4] for m in mods])
    clean = []          # modules accepted by the validator: the base of the mutation self-test
    for (n, o, opts, src, words), res in zip(mods, outs):
        stats["modules"] = stats.get("modules", 0) + 1
        if not res.get("decoded"):
            key = "undecodable|%s" % res.get("error", "")[:40]
            found.setdefault(key, []).append((n, o, opts, src, words, {"rule": "undecodable", "idx": -1, "op": -1, "a": 0, "b": 0}))
            continue
        for k, v in res["stats"].items():
            if k != "version":
                stats[k] = stats.get(k, 0) + v
        stats.setdefault("versions_seen", set()).add(res["stats"]["version"])
        for v in res["violations"]:
            found.setdefault(violation_key(words, v), []).append((n, o, opts, src, words, v))
        if not res["violations"]:
            clean.append((n, o, opts, src, words))
    return clean


def self_test(ctx, exe, mods, per_mutation):
    """Sensitivity of the validator itself: invalidating word-level mutants of real modules."""
    rng = ctx.rng.fork("selftest")
    jobs = []
    meta = []
    order = rng.shuffle(list(range(len(mods))))
    for mname in spvmut.MUTATIONS:
        n = 0
        for k in order:
            m = spvmut.apply(mname, mods[k][4], rng.fork("%s/%d" % (mname, k)))
            if m is None:
                continue
            jobs.append(m)
            meta.append((mname, k))
            n += 1
            if n >= per_mutation:
                break
    outs = run_validator(exe, jobs)
    table = {}
    missed_must = []
    for (mname, k), r in zip(meta, outs):
        t = table.setdefault(mname, {"applied": 0, "caught": 0})
        t["applied"] += 1
        rules = {v["rule"].split(":")[0] for v in r.get("violations", [])} if r.get("decoded") else {"undecodable"}
        if rules & spvmut.MUTATIONS[mname][1]:
            t["caught"] += 1
        elif mname in MUST_CATCH:
            missed_must.append((mname, mods[k][0], mods[k][1]))
    return table, missed_must


def run(ctx):
    timing = {}
    t0 = time.time()

    def lap(name):
        nonlocal t0
        timing[name] = round(time.time() - t0, 1)
        t0 = time.time()
    ctx.cov["timing_s"] = timing
    tools = vcheck.build_harness(["goextract", "spvextract", "spvdrive"])
    lap("go_build")
    ok, failed, log = vcheck.proof_step(
        ctx, "Props/C02.v", MODEL_FILES,
        gen_writer=lambda: gen.regenerate(tools, ["spvenums", "spvbuild"]),
        extra_obligation_files=["Spv/SpvTies.v"])
    ctx.cov["trusted_base"] += [
        "transcription of the SPIR-V 1.6 specification (opcode numbers, operand kinds, section order, validation rules, "
        "capability/extension table) and of the Vulkan environment rules in coq/Spv/Opcodes.v, Validate.v, Vulkan.v, Caps.v, "
        "Typecheck.v — no spirv-val exists in the sandbox to cross-check it; the self-test below measures its sensitivity, "
        "the quiet corpus run its specificity",
        "translator: harness/cmd/goextract (go/ast) + gen.py -> coq/Gen/SpvEnums.v (const blocks of spirv.go), coq/Gen/SpvBuild.v "
        "(statement order of ModuleBuilder.Build)",
        "extraction: ExtrOcamlBasic only; generic JSON driver ocaml/common/driver.ml; OCaml 4.13.1",
        "harness/cmd/spvdrive (options -> spirv.Options, bytes -> little-endian words)",
        "soundness theorems cover: decoder round trip, reachability/dominance, id uniqueness, section order, block/terminator "
        "structure, builder invariants; the Vulkan/capability/type rule groups are executable specifications without a "
        "meaning theorem (validate_progress of DESIGN C02 (iii) is not proved: there is no SPIR-V semantics in the tree yet)",
    ]
    ctx.assumptions = [
        "the module is consumed by a Vulkan 1.1+ environment (relaxed block layout, Logical addressing, GLSL450 memory model)",
        "OpSwitch selectors are at most 32 bits wide (WGSL switches on i32/u32)",
    ]
    broken = None
    if not ok:
        # an R obligation that fails names what differs (constant, section order, modelled source text); the V tie below
        # then looks for a concrete module that shows it
        broken = "Coq development no longer checks: %s" % (failed or log[-800:])
        if not all(vcheck.vo_ok(f) for f in ("Spv/ValidateMain.v", "Spv/SpecNames.v")):
            ctx.violation(broken, found_input=False, broken=broken, files={"coq_make.log": log[-20000:]},
                          key="coq:" + ",".join(failed or ["make"]))
            return
    lap("coq_make")
    exe = ocamlbuild.build("spv")
    lap("extract_ocaml")

    # constants of spirv.go against the specification tables (values; names are a Coq obligation)
    rows = [[t, n, v] for t, n, v in gen.spv_consts(tools)]
    cres = vcheck.run_model(exe, [{"consts": rows}])[0]
    for m in cres.get("mismatches", []):
        ctx.violation("constant %s of spirv.go is %d, the SPIR-V specification says %d" % (m["name"], m["naga"], m["spec"]),
                      key="const:%s" % m["name"], files={"mismatch.json": json.dumps(m)},
                      broken="spirv.go constant table vs specification (Spv/SpvTies.v const_mismatches)")
    ctx.cov["constants_compared"] = len(rows)

    corpus = nagarun.corpus()
    stats = {}
    found = {}
    pstats = {}
    pjobs = [{"id": i, "src": p[2], "opts": p[1], "want": ["validate"]} for i, p in enumerate(PROBES)]
    praw = nagarun.parallel_batches(tools["spvdrive"], "compile", pjobs, per_job_timeout=30.0)
    validate_modules(ctx, exe, [(p[0], "probe", p[1], p[2], praw.get(i)) for i, p in enumerate(PROBES)], pstats, found)
    ctx.cov["probes"] = {"programs": len(PROBES), "modules": pstats.get("modules", 0)}
    nsets = ctx.scale(QUICK_SETS, len(OPTION_SETS))
    compiled = compile_all(tools, corpus, OPTION_SETS[:nsets])
    mods = validate_modules(ctx, exe, compiled, stats, found)
    lap("corpus_compile_validate")

    # generated programs: control-flow and type/resource shapes the corpus does not contain
    nprog = ctx.scale(100, 1500)
    progs = c02gen.programs(ctx.rng.fork("gen"), nprog)
    progs += c02gen.layout_programs()
    feats = c02gen.feature_programs()
    progs += feats
    # typed compute programs of the shared generator (helper calls in loops and continuing blocks, a helper
    # that is the sole user of a buffer, forward references): half of them rendered entry-point-first
    import wgslgen
    grng = ctx.rng.fork("wgslgen")
    for i in range(ctx.scale(30, 400)):
        prog, _src = wgslgen.generate(grng.fork("p%d" % i))
        progs.append(("wgslgen%d" % i, wgslgen.render(prog, reverse=(i % 2 == 1))))
    # every generated program under a rotating subset of option sets
    per = ctx.scale(2, 4)
    rng = ctx.rng.fork("genopts")
    jobs = []
    for name, src in progs:
        for oname, opts in rng.shuffle(OPTION_SETS)[:per]:
            jobs.append((name, oname, opts, src))
    # systematic families under fixed option sets: entry-point inputs read at several control-flow positions (with and
    # without the 16-bit I/O capability), and modules with several entry points that share helpers (every option set:
    # interface lists of SPIR-V >= 1.4, zero-initialisation)
    for name, src in c02gen.io_read_site_programs():
        for oname, opts in c02gen.IO_OPTION_SETS:
            jobs.append((name, oname, opts, src))
    import c15progs
    seen_src = set()
    for name, src, _m in c15progs.multi_entry_programs():
        if src in seen_src:
            continue
        seen_src.add(src)
        for oname, opts in OPTION_SETS:
            jobs.append((name.split("@")[0], oname, opts, src))
    raw = nagarun.parallel_batches(tools["spvdrive"], "compile",
                                   [{"id": i, "src": j[3], "opts": j[2], "want": ["validate"]} for i, j in enumerate(jobs)],
                                   per_job_timeout=30.0, chunk=64)
    gcompiled = [(j[0], j[1], j[2], j[3], raw.get(i)) for i, j in enumerate(jobs)]
    gstats = {}
    gmods = validate_modules(ctx, exe, gcompiled, gstats, found)
    rejected = sum(1 for c in gcompiled if c[4] and ("err" in c[4]))
    invalid = sum(1 for c in gcompiled if c[4] and any("break outside of loop" not in e for e in (c[4].get("validate") or [])))

    lap("generated_compile_validate")
    # report: one violation per key; when one rule shows up under many contexts (a systematic defect) the first few
    # keys get their own replay and the rest are summarised (known findings are always matched key by key)
    known = {k.get("match") for k in ctx._known if k.get("status") == "open"}
    per_rule = {}
    overflow = {}
    for key in sorted(found):
        items = found[key]
        n, o, opts, src, words, v = min(items, key=lambda it: len(it[4]))
        rule = v["rule"]
        if key not in known:
            per_rule[rule] = per_rule.get(rule, 0) + 1
            if per_rule[rule] > 6:
                overflow.setdefault(rule, []).append((key, len(items)))
                continue
        what = ("naga emitted SPIR-V that breaks rule %s at instruction %d (opcode %d, detail %d/%d): shader %s, options %s "
                "[%d occurrence(s) in %d module(s); key %s]"
                % (rule, v["idx"], v["op"], v["a"], v["b"], n, o, len(items), len({(i[0], i[1]) for i in items}), key))
        ctx.violation(what, key=key, files={"shader.wgsl": src, "options.json": json.dumps(opts), "module.spv": words_bytes(words),
                                            "violation.json": json.dumps(v), "words.json": json.dumps(words)})
    for rule, ks in sorted(overflow.items()):
        ctx.violation("rule %s is also broken under %d further contexts (%d occurrences), e.g. %s"
                      % (rule, len(ks), sum(k[1] for k in ks), ", ".join(k[0] for k in ks[:4])),
                      key="%s|many" % rule, files={"keys.json": json.dumps(ks)})
    if broken:
        if ctx.violations:
            ctx.cov["broken_tie"] = broken
        else:
            ctx.violation(broken + "\n(no emitted module violating a rule was found)", found_input=False, broken=broken,
                          files={"coq_make.log": log[-20000:]}, key="coq:" + ",".join(failed or ["make"]))
    table, missed = self_test(ctx, exe, mods + gmods, ctx.scale(4, 40))
    for mname, n, o in missed[:5]:
        ctx.violation("validator self-test: the invalidating mutation '%s' of the module for %s (%s) was not reported — the "
                      "validator (not naga) lost sensitivity" % (mname, n, o), found_input=False,
                      broken="Spv validator rule for mutation %s" % mname, key="selftest:" + mname)

    lap("self_test")
    for s in (stats, gstats):
        if "versions_seen" in s:
            s["versions_seen"] = sorted(s["versions_seen"])
    ctx.cov["corpus"] = dict(stats, option_sets=[o for o, _ in OPTION_SETS[:nsets]], shaders=len(corpus))
    ctx.cov["generated"] = dict(gstats, programs=len(progs), compile_jobs=len(jobs), rejected_by_front_end=rejected,
                                flagged_by_naga_validator=invalid)
    ctx.cov["opaque_opcode_instructions"] = stats.get("opaque", 0) + gstats.get("opaque", 0)
    ctx.cov["self_test"] = table
    ctx.cov["distinct_rule_violation_keys"] = sorted(found)
    ctx.cov["traces_validated_against_impl"] = stats.get("modules", 0) + gstats.get("modules", 0)
    ctx.cov["evaluations"] = stats.get("modules", 0) + gstats.get("modules", 0) + sum(t["applied"] for t in table.values())
    ctx.cov["distinct_nontrivial"] = len({tuple(m[4]) for m in mods + gmods})
    ctx.cov["rule"] = ("one evaluation = one SPIR-V module emitted by naga (corpus shader or generated program x option set) run "
                       "through the extracted validator, plus one per self-test mutant; distinct_nontrivial = distinct word "
                       "streams among the emitted modules")
    for name, oname, opts, src, words in (mods[:2] + gmods[:2]):
        ctx.sample({"program": name, "options": oname, "words": len(words)})
