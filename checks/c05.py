"""C05 - GLSL output computes what the WGSL program means.

Deciding method:
  * proof (Coq): Props/C05.v - every GLSL expression template naga emits for an IR operator / math builtin,
    evaluated in the GLSL 4.60 semantics of coq/Glsl, yields the WGSL value for ALL 32-bit operands under the
    property's definedness hypotheses (refuted templates are findings);
  * tie R: coq/Gen/GlslOpTable.v regenerated from /repo by probing (one micro-compile per operator x kind x shape x
    profile), obligation Glsl/OpTable.v gen_table_in_catalogue re-checked by coqc on every run;
  * tie V (translation validation, per program): the emitted GLSL text of whole programs (own programs +
    corpus compute shaders) x option sets is read by lib/glslread.py and executed by the extracted GLSL
    interpreter (glslrun); the IR dump is executed by the reference interpreter (irrun); final storage buffer
    contents are compared bit for bit; block layouts (std140/std430) are compared with the IR's offsets.
  * search: when the table obligation breaks, the probe programs themselves are run differentially on the
    boundary pool to exhibit a failing (operator, type, operands)."""
import json
import os
import re
from concurrent.futures import ThreadPoolExecutor

import gen
import glslcorr
import glslprobe
import glslprogs
import nagarun
import ocamlbuild
import shrink
import vcheck
import wgslgen
import cfskel

LEVEL = "proof"

SHAPES = None          # cfskel.Shapes: recogniser of the control-flow encodings (coq/Target/Shapes.v) over every text read

MODEL_FILES = ["Glsl/Syntax.v", "Glsl/Ops.v", "Glsl/Sem.v", "Glsl/Decode.v", "Glsl/Catalogue.v",
               "Glsl/CatalogueProofs.v", "Glsl/OpTable.v"] + cfskel.TARGET_FILES

OPTION_SETS = [
    {"version": 430},
    {"version": 310},
    {"version": 450, "binding_map": "all"},
    {"version": 320, "binding_map": "all", "force_high_precision": False},
    {"version": 460, "flags": 3},
    {"version": 440, "fresh_module": True},
]


def opts_for(o, ir):
    """materialise 'binding_map': 'all' as a map giving every resource a distinct slot"""
    o = dict(o)
    if o.get("binding_map") == "all":
        bm = []
        slot = 3
        for g in (ir or {}).get("GlobalVariables", []):
            b = g.get("Binding")
            if b:
                bm.append([b["Group"], b["Binding"], slot])
                slot += 2
        o["binding_map"] = bm
    return o


def run_parallel(exe, inputs, workers=2):
    """extracted interpreters: process start-up under load costs more than it gains; two workers at most"""
    if not inputs:
        return []
    if len(inputs) < 64:
        return vcheck.run_model(exe, inputs)
    n = len(inputs)
    size = (n + workers - 1) // workers
    chunks = [inputs[i:i + size] for i in range(0, n, size)]
    with ThreadPoolExecutor(len(chunks)) as ex:
        outs = list(ex.map(lambda c: vcheck.run_model(exe, c), chunks))
    return [r for o in outs for r in o]


def build_tool(name, extract_v, src_dirs):
    """ocamlbuild.build re-extracts on every call (about half a minute per tool); the extracted program depends only on
    the Coq sources below, so an executable newer than all of them is reused"""
    exe = os.path.join(vcheck.BUILD, "bin", name + "_model")
    deps = [os.path.join(vcheck.COQ, extract_v), os.path.join(vcheck.VERIF, "ocaml", "common", "driver.ml")]
    for d in src_dirs:
        dd = os.path.join(vcheck.COQ, d)
        if dd.endswith(".v"):
            deps.append(dd)
        else:
            deps += [os.path.join(dd, f) for f in os.listdir(dd) if f.endswith(".v")]
    try:
        t = os.path.getmtime(exe)
        if all(os.path.getmtime(p) < t for p in deps):
            return exe
    except OSError:
        pass
    return ocamlbuild.build(name)


def direct_build(files):
    """fallback when the shared `make` is disturbed by somebody else's files: compile this property's files with coqc,
    in dependency order (Base/ and IR/ are built by bin/setup)"""
    logs = []
    for f in files:
        rc, so, se = vcheck.sh(["coqc", "-Q", ".", "Naga", f], cwd=vcheck.COQ, timeout=1500)
        logs.append(so + se)
        if rc != 0:
            return False, [f], "\n".join(logs)
    return True, [], "\n".join(logs)


def norm_msg(msg):
    msg = re.sub(r"(variable|identifier|function|struct|block|global|parameter name|member) [A-Za-z_0-9]+", r"\1 N", msg)
    msg = re.sub(r"\d+", "N", msg)
    return msg[:100]


class OncePerKey:
    """ctx wrapper: a violation key is reported once per run (with its first input); repetitions are counted"""

    def __init__(self, ctx):
        self._ctx = ctx
        self.counts = ctx.cov.setdefault("violation_key_counts", {})

    def __getattr__(self, name):
        return getattr(self._ctx, name)

    def violation(self, what, files=None, found_input=True, key=None, broken=None):
        k = key if key is not None else what[:80]
        self.counts[k] = self.counts.get(k, 0) + 1
        if self.counts[k] > 1:
            return False
        return self._ctx.violation(what, files=files, found_input=found_input, key=key, broken=broken)


class Validator:
    """differential validation of a set of programs x option sets x inputs"""

    def __init__(self, ctx, tools, irx, glx, en, per_program_keys=False):
        ctx = ctx if isinstance(ctx, OncePerKey) else OncePerKey(ctx)
        self.ctx, self.tools, self.irx, self.glx, self.en = ctx, tools, irx, glx, en
        self.per_program_keys = per_program_keys      # keys of not-own programs carry the program name (generated family)
        self.workers = 2
        self.stats = {"programs": 0, "entry_points": 0, "texts": 0, "texts_read": 0, "cases": 0, "compared_buffers": 0,
                      "agree": 0, "disagree": 0, "out_of_fragment": 0, "oof_reasons": {}, "ub_skipped": 0,
                      "ir_not_modelled": 0, "illtyped": 0, "layout_blocks": 0, "layout_mismatches": 0,
                      "binding_checks": 0}
        self.distinct = set()

    def oof(self, reason):
        self.stats["out_of_fragment"] += 1
        r = norm_msg(reason)
        self.stats["oof_reasons"][r] = self.stats["oof_reasons"].get(r, 0) + 1

    def validate(self, programs, option_sets, n_inputs, own, rtlen=8):
        """programs: [(name, src, modes)]; own: True = in-fragment by construction (OOF/UB are violations)"""
        ctx = self.ctx
        # 1. compile under the first option set to get the IR (independent of GLSL options), then under all
        base = glslcorr.compile_jobs(self.tools, [{"id": i, "src": p[1], "opts": {"version": 430}} for i, p in enumerate(programs)],
                                     workers=min(4, self.workers))
        jobs = []
        for i, p in enumerate(programs):
            r = base.get(i) or {}
            if "ir" not in r:
                if own:
                    ctx.violation("own validation program %s does not compile: %s" % (p[0], str(r)[:300]),
                                  files={"input.wgsl": p[1]}, key="compile:" + p[0])
                continue
            if r.get("validate"):
                if own:
                    ctx.violation("own validation program %s is rejected by the validator: %s" % (p[0], r["validate"][:2]),
                                  files={"input.wgsl": p[1]}, key="validate:" + p[0])
                continue
            for oi, o in enumerate(option_sets):
                jobs.append({"id": "%d/%d" % (i, oi), "src": p[1], "opts": opts_for(o, r["ir"])})
        res = glslcorr.compile_jobs(self.tools, jobs, want=(), workers=min(4, self.workers))      # (the IR dump of the base compile is reused)
        # 2. build cases
        ircases, irkeys = [], {}
        glcases, glmeta = [], []
        for i, p in enumerate(programs):
            name, src, modes = p
            r0 = base.get(i) or {}
            if "ir" not in r0 or r0.get("validate"):
                continue
            ir = r0["ir"]
            self.stats["programs"] += 1
            stages = self.en["ShaderStage"]
            for oi, o in enumerate(option_sets):
                r = res.get("%d/%d" % (i, oi)) or {}
                oo = opts_for(o, ir)
                for epi, ep in enumerate(r.get("eps") or []):
                    if ep.get("stage") != "compute":
                        continue
                    self.stats["texts"] += 1
                    if oi == 0:
                        self.stats["entry_points"] += 1
                    tag = "%s:%s:v%s" % (name, ep["name"], o["version"])
                    if "text" not in ep:
                        if own or self.per_program_keys:      # (own and generated programs use nothing the back end may refuse)
                            ctx.violation("glsl.Compile failed on own program %s entry %s (%s): %s" % (name, ep["name"], o, ep.get("err")),
                                          files={"input.wgsl": src, "case.json": json.dumps({"program": name, "entry": ep["name"], "opts": o})}, key="glsl_err:%s:%s" % (name, norm_msg(str(ep.get("err")))))
                        else:
                            self.oof("glsl.Compile error: " + str(ep.get("err")))
                        continue
                    st, parsed = glslcorr.read_glsl(ep["text"])
                    casej = json.dumps({"program": name, "entry": ep["name"], "opts": o})
                    if st == "illformed":
                        ctx.violation("the GLSL emitted for %s is not a program: %s" % (tag, parsed),
                                      files={"input.wgsl": src, "output.glsl": ep["text"], "case.json": casej},
                                      key="illformed:%s:%s" % (name, norm_msg(parsed)))
                        continue
                    if st != "ok":
                        if own or st == "bad":
                            ctx.violation("the reader cannot read the GLSL emitted for %s (%s): %s" % (tag, st, parsed),
                                          files={"input.wgsl": src, "output.glsl": ep["text"], "case.json": casej},
                                          key="unreadable:%s:%s" % (name if own or self.per_program_keys else "corpus", norm_msg(parsed)),
                                          broken="reader coverage / emitted text outside the GLSL subset")
                        else:
                            self.oof("reader: " + parsed)
                        continue
                    self.stats["texts_read"] += 1
                    if SHAPES is not None:
                        SHAPES.add(tag, parsed, {"input.wgsl": src, "output.glsl": ep["text"], "case.json": casej})
                    self.structure_checks(name, src, ep, parsed, ir, oo, own)
                    for mode in modes:
                        for k in range(n_inputs):
                            rng = ctx.rng.fork("%s/%s/%s/%d" % (name, ep["name"], mode, k))
                            try:
                                irin, glin, compared = glslcorr.build_case(ir, self.en, epi, parsed, ep["info"], rng,
                                                                           "boundary" if mode == "zeros_and_negatives" else mode, rtlen)
                            except ValueError as e:
                                if own:
                                    ctx.violation("cannot build inputs for own program %s: %s" % (tag, e), files={"input.wgsl": src},
                                                  key="inputs:" + name)
                                else:
                                    self.oof("inputs: " + str(e))
                                break
                            if mode == "zeros_and_negatives":
                                specials = [0, 0xFFFFFFFF, 0x80000000, 1, 0xFFFFFFF0, 16, 0x7FFFFFFF, 2]
                                for gv in irin["globals"]:
                                    if gv and "arr" in gv and gv["arr"] and "i" in gv["arr"][0]:
                                        for j in range(len(gv["arr"])):
                                            gv["arr"][j] = {"i": specials[(j + k) % len(specials)]}
                            ik = (i, epi, mode, k)
                            if ik not in irkeys:
                                irkeys[ik] = len(ircases)
                                ircases.append(irin)
                            glcases.append(glin)
                            glmeta.append({"ik": ik, "name": name, "src": src, "ep": ep["name"], "opts": o, "mode": mode, "k": k,
                                           "compared": compared, "text": ep["text"], "own": own, "irin": irin,
                                           "builtins": glin["builtins"]})
                        else:
                            continue
                        break
        # 3. run
        if self.workers > 2:           # (generated family: both interpreters at the same time)
            with ThreadPoolExecutor(2) as ex:
                fa = ex.submit(run_parallel, self.irx, ircases, self.workers)
                fb = ex.submit(run_parallel, self.glx, glcases, self.workers)
                irres, glres = fa.result(), fb.result()
        else:
            irres = run_parallel(self.irx, ircases, self.workers)
            glres = run_parallel(self.glx, glcases, self.workers)
        for m, g in zip(glmeta, glres):
            self.judge(m, irres[irkeys[m["ik"]]], g)
        if SHAPES is not None:
            SHAPES.run()

    def structure_checks(self, name, src, ep, parsed, ir, oo, own):
        """version line, binding map, block layout against the IR's offsets"""
        ctx = self.ctx
        meta = parsed["meta"]
        want_es = oo.get("es", oo["version"] < 330)
        if meta["version"] != oo["version"] or bool(meta["es"]) != bool(want_es):
            ctx.violation("#version of %s is %s es=%s, requested %s" % (name, meta["version"], meta["es"], oo["version"]),
                          files={"input.wgsl": src, "output.glsl": ep["text"]}, key="version:" + name)
        ti = glslcorr.TypeInfo(ir, self.en)
        structs = {s["name"]: [(m[0], m[1]) for m in s["members"]] for s in parsed["ast"]["structs"]}
        uniforms = (ep.get("info") or {}).get("Uniforms") or []
        bm = {(g, b): s for g, b, s in (oo.get("binding_map") or [])} if isinstance(oo.get("binding_map"), list) else None
        spaces = self.en["AddressSpace"]
        for blk in meta["blocks"]:
            u = [x for x in uniforms if x["BlockName"] == blk["name"]]
            if len(u) != 1:
                ctx.violation("block %s of %s has %d entries in TranslationInfo.Uniforms" % (blk["name"], name, len(u)),
                              files={"input.wgsl": src, "output.glsl": ep["text"]}, key="blockinfo:" + name)
                continue
            gb = u[0]["Binding"]
            gl = [g for g in ir["GlobalVariables"] if g.get("Binding") and g["Binding"]["Group"] == gb["Group"]
                  and g["Binding"]["Binding"] == gb["Binding"]]
            if len(gl) != 1:
                continue
            g = gl[0]
            sp = spaces[g["Space"]]
            want_storage = "buffer" if sp == "SpaceStorage" else "uniform"
            want_layout = "std430" if sp == "SpaceStorage" else "std140"
            if blk["storage"] != want_storage or blk["layout"] != want_layout:
                ctx.violation("block %s of %s is declared `layout(%s) %s`, expected `layout(%s) %s` for a %s variable"
                              % (blk["name"], name, blk["layout"], blk["storage"], want_layout, want_storage, sp),
                              files={"input.wgsl": src, "output.glsl": ep["text"]}, key="blockkind:" + name)
            if bm is not None:
                self.stats["binding_checks"] += 1
                want = bm.get((gb["Group"], gb["Binding"]))
                if blk["binding"] != want:
                    ctx.violation("block %s of %s has binding %s, the binding map says %s" % (blk["name"], name, blk["binding"], want),
                                  files={"input.wgsl": src, "output.glsl": ep["text"]}, key="binding:" + name)
            # layout
            std140 = blk["layout"] == "std140"
            self.stats["layout_blocks"] += 1
            try:
                if blk["instance"] is not None:
                    st2 = dict(structs)
                    mism = glslcorr.ir_layout_mismatches(ti, g["Type"], ["st", blk["name"]], st2, std140)
                else:
                    mism = glslcorr.ir_layout_mismatches(ti, g["Type"], blk["members"][0][1], structs, std140)
            except (ValueError, KeyError) as e:
                mism = []
            if mism:
                self.stats["layout_mismatches"] += 1
                path, what, cause = mism[0]
                ctx.violation("byte layout of block %s (%s) of %s differs from the WGSL layout in the IR: %s%s: %s; the text has no "
                              "explicit padding or layout(offset=) (GLSL reads/writes other bytes than WGSL prescribes)"
                              % (blk["name"], blk["layout"], name, g.get("Name"), path, what),
                              files={"input.wgsl": src, "output.glsl": ep["text"], "mismatches.txt": "\n".join("%s: %s (%s)" % m for m in mism)},
                              key="layout:%s:%s" % (blk["layout"], cause if cause != "other" else "%s:%s" % (name, re.sub(r"\d+", "N", what))))

    def judge(self, m, a, b):
        ctx = self.ctx
        st = self.stats
        st["cases"] += 1
        tag = "%s:%s %s mode=%s #%d" % (m["name"], m["ep"], m["opts"], m["mode"], m["k"])
        files = {"input.wgsl": m["src"], "output.glsl": m["text"],
                 "inputs.json": json.dumps({"globals": m["irin"]["globals"], "args": m["irin"]["args"], "builtins": m.get("builtins")}),
                 "case.json": json.dumps({"program": m["name"], "entry": m["ep"], "opts": m["opts"], "mode": m["mode"], "k": m["k"]})}
        if not a.get("ok"):
            if a.get("kind") == "outoffuel":
                self.oof("IR run out of fuel")
            else:
                st["ir_not_modelled"] += 1
                if m["own"]:
                    ctx.violation("the IR reference interpreter fails on own program %s: %s" % (tag, a.get("msg")), files=files,
                                  key="irfail:%s" % m["name"], broken="own program outside the IR fragment or reaches WGSL-level failure")
            return
        if not b.get("ok"):
            kind = b.get("kind")
            msg = b.get("msg", "")
            cls = glslcorr.classify_fail(msg) if kind == "fail" else kind
            if cls == "type":
                st["illtyped"] += 1
                ctx.violation("the GLSL emitted for %s is ill-typed: %s" % (tag, msg), files=files,
                              key="illtyped:%s:%s" % (m["name"], norm_msg(msg)))
            elif cls == "ub":
                if m["own"] and m["mode"] != "zeros_and_negatives":
                    ctx.violation("GLSL-undefined behaviour reached on an input chosen to avoid it, %s: %s (IR run is fine)" % (tag, msg),
                                  files=files, key="ub:%s:%s" % (m["name"], norm_msg(msg)))
                else:
                    st["ub_skipped"] += 1
                    r = norm_msg(msg)
                    st.setdefault("ub_reasons", {})[r] = st.setdefault("ub_reasons", {}).get(r, 0) + 1
            elif cls in ("oof", "outoffuel", "decode", "harness", "other"):
                if m["own"]:
                    ctx.violation("the GLSL interpreter cannot run own program %s: %s %s" % (tag, kind, msg), files=files,
                                  key="glslfail:%s:%s" % (m["name"], norm_msg(msg)), broken="GLSL reader/semantics coverage")
                else:
                    self.oof("glslrun: %s %s" % (kind, msg))
            return
        bad = []
        for gi, blk in m["compared"]:
            st["compared_buffers"] += 1
            x = a["globals"][gi]
            y = b["buffers"].get(blk)
            if x != y:
                bad.append((gi, blk, x, y))
        self.distinct.add((m["name"], m["ep"], json.dumps(m["irin"]["globals"], sort_keys=True)))
        if bad:
            st["disagree"] += 1
            gi, blk, x, y = bad[0]
            files["ir_result.json"] = json.dumps(x)
            files["glsl_result.json"] = json.dumps(y)
            ctx.violation("final contents of buffer %s differ between the WGSL meaning (IR interpreter) and the emitted GLSL for %s\n"
                          "  ir  : %s\n  glsl: %s" % (blk, tag, json.dumps(x)[:300], json.dumps(y)[:300]), files=files,
                          key="mismatch:%s:%s" % (m["name"], m["ep"]))
        else:
            st["agree"] += 1
            if len(ctx.cov["samples"]) < 4:
                ctx.sample({"program": m["name"], "entry": m["ep"], "options": m["opts"], "mode": m["mode"],
                            "buffers_compared": [b_ for _, b_ in m["compared"]],
                            "first_buffer_after": json.dumps(b["buffers"].get(m["compared"][0][1]) if m["compared"] else None)[:160]})


# ---------------------------------------------------------------- generated programs (lib/wgslgen.py)

# The generated family stays clear of the constructs with a recorded C05 finding (they are exercised by the dedicated
# finding_* programs of lib/glslprogs.py) and of what GLSL leaves undefined (the property's quantifier):
#   countLeadingZeros / countTrailingZeros templates, abs on u32, select with a vector condition (recorded findings);
#   integer / and % keep the divisor in 1..65535 and the left operand of a signed % non-negative, integer clamp has
#   ordered bounds (undefined in GLSL otherwise); the generator already masks shift amounts and clamps float->int operands.
# Not produced by the generator at all: single-body switches (continue-forwarding finding), abstract-float literals,
# matCx2 in uniform buffers, @align/@size, atomics.
GEN_OPTS = {"avoid": ("countLeadingZeros", "countTrailingZeros", "abs:u32"), "vec_select_cond": False,
            "safe_int_div": True, "ordered_int_clamp": True}

GEN_QUICK, GEN_THOROUGH = 400, 1200


def avoid_recorded_findings(prog):
    """Meaning-preserving rewrite that keeps a generated program clear of a recorded finding, so that the rest of the
    program is still validated: uses of module-scope `const K: bool` are replaced by the constant's literal value
    (`K && x` with constant operands is folded to `false` by the GLSL writer: finding_const_logical_fold of
    lib/glslprogs.py exercises that; with literals the front end folds the expression itself)."""
    import copy
    p = copy.deepcopy(prog)
    bools = {c["n"]: c["e"] for c in p["consts"] if c["t"] == "bool"}
    if not bools:
        return p

    def inline(x):
        if isinstance(x, list):
            for i, y in enumerate(x):
                if isinstance(y, dict) and y.get("e") == "var" and y.get("n") in bools:
                    x[i] = copy.deepcopy(bools[y["n"]])
                else:
                    inline(y)
        elif isinstance(x, dict):
            for k, y in list(x.items()):
                if isinstance(y, dict) and y.get("e") == "var" and y.get("n") in bools:
                    x[k] = copy.deepcopy(bools[y["n"]])
                else:
                    inline(y)
    inline(p["funcs"])
    inline(p["entry"]["body"])
    inline(p["globals"])
    return p

CONTROL = ("if", "switch", "loop", "for", "while", "break", "continue", "return", "callstmt")


class Capture:
    """ctx stand-in: collects what a Validator would report (generated programs are classified, shrunk and keyed on
    the construct before anything is reported)"""

    def __init__(self, ctx, private=False):
        self._ctx = ctx
        self.items = []
        if private:        # own once-per-key bookkeeping and samples (re-runs of one case while shrinking)
            self.cov = {"samples": [None] * 8}

    def __getattr__(self, name):
        return getattr(self._ctx, name)

    def violation(self, what, files=None, found_input=True, key=None, broken=None):
        self.items.append({"what": what, "files": files or {}, "key": key or what[:80], "broken": broken})
        return True


def coarse_class(key):
    """`mismatch:gen12:main` -> `mismatch`, `illtyped:gen3:TYPE: ...` -> `illtyped:TYPE: ...` (program name removed)"""
    parts = key.split(":", 2)
    if parts[0] == "mismatch":
        return "mismatch"
    return parts[0] + (":" + re.sub(r" in \w+ \(", " (", parts[2]) if len(parts) > 2 else "")


def skeleton(prog):
    """what is left of a shrunk program, as a seed-independent signature: the control statements it still contains
    (+ `continuing` / `break-if` / user calls); for straight-line programs the builtins and operators"""
    kinds, ops = set(), set()

    def ex(x):
        if isinstance(x, list):
            for y in x:
                ex(y)
        elif isinstance(x, dict):
            k = x.get("e")
            if k == "call":
                kinds.add("call")
            elif k == "builtin":
                ops.add(x["f"])
            elif k in ("bin", "un"):
                ops.add(x["op"])
            elif k in ("conv", "bitcast", "arraylen", "deref"):
                ops.add(k)
            for v in x.values():
                ex(v)

    def st(b):
        for s_ in b:
            k = s_.get("s")
            if k in CONTROL:
                kinds.add(k)
            if k == "loop" and s_.get("cont"):
                kinds.add("continuing")
            if k == "loop" and s_.get("break_if") is not None:
                kinds.add("break-if")
            for f in ("then", "else", "body", "cont"):
                if isinstance(s_.get(f), list):
                    st(s_[f])
            if k == "switch":
                for c in s_["cases"]:
                    st(c["body"])
            if isinstance(s_.get("init"), dict):
                st([s_["init"]])
            if isinstance(s_.get("upd"), dict):
                st([s_["upd"]])
            ex([s_.get(f) for f in ("e", "l", "c", "break_if", "args")])
    st(prog["entry"]["body"])
    for f in prog["funcs"]:
        st(f["body"])
    if kinds:
        return "+".join(sorted(kinds))
    return "straight-line:" + "+".join(sorted(ops))[:80]


class SingleCase:
    """one (program text, option set, entry point, recorded inputs) -> the class a Validator would put it in"""

    def __init__(self, ctx, tools, irx, glx, en):
        self.ctx, self.tools, self.irx, self.glx, self.en = ctx, tools, irx, glx, en
        self.evaluations = 0

    def run(self, src, case, inputs):
        """-> (class | "quiet" | "nocompile", emitted text or None)"""
        self.evaluations += 1
        o = case["opts"]
        r = glslcorr.compile_jobs(self.tools, [{"id": 0, "src": src, "opts": o if o.get("binding_map") != "all" else {"version": 430}}],
                                  workers=1).get(0) or {}
        if "ir" not in r or r.get("validate"):
            return "nocompile", None
        if o.get("binding_map") == "all":
            o = opts_for(o, r["ir"])
            r2 = glslcorr.compile_jobs(self.tools, [{"id": 0, "src": src, "opts": o}], want=(), workers=1).get(0) or {}
        else:
            r2 = r
        cap = Capture(self.ctx, private=True)
        v = Validator(cap, self.tools, self.irx, self.glx, self.en, per_program_keys=True)
        name = case["program"]
        for epi, ep in enumerate(r2.get("eps") or []):
            if ep.get("name") != case["entry"]:
                continue
            if "text" not in ep:
                return coarse_class("glsl_err:_:" + norm_msg(str(ep.get("err")))), None
            st, parsed = glslcorr.read_glsl(ep["text"])
            if st != "ok":
                return coarse_class({"illformed": "illformed", "bad": "unreadable", "oof": "oof"}[st] + ":_:" + norm_msg(parsed)), ep["text"]
            try:
                irin, glin, compared = glslcorr.build_case(r["ir"], self.en, epi, parsed, ep["info"], self.ctx.rng.fork("single"), "small", 8)
            except ValueError:
                return "noinputs", ep["text"]
            if inputs is not None:
                if len(inputs["globals"]) != len(irin["globals"]):
                    return "noinputs", ep["text"]
                irin["globals"], irin["args"] = inputs["globals"], inputs["args"]
                if inputs.get("builtins"):
                    glin["builtins"] = {k: x for k, x in inputs["builtins"].items() if k in glin["builtins"]}
                uniforms = (ep.get("info") or {}).get("Uniforms") or []
                for gi, g in enumerate(r["ir"]["GlobalVariables"]):
                    blk = glslcorr.block_of_global(uniforms, g)
                    if blk in glin["buffers"] and inputs["globals"][gi] is not None:
                        glin["buffers"][blk] = inputs["globals"][gi]
            a = vcheck.run_model(self.irx, [irin])[0]
            b = vcheck.run_model(self.glx, [glin])[0]
            v.judge({"ik": None, "name": name, "src": src, "ep": ep["name"], "opts": case["opts"], "mode": "small", "k": 0,
                     "compared": compared, "text": ep["text"], "own": False, "irin": irin, "builtins": glin["builtins"]}, a, b)
            if cap.items:
                return coarse_class(cap.items[0]["key"]), ep["text"]
            return "quiet", ep["text"]
        return "nocompile", None


def generated_leg(ctx, tools, irx, glx, en, n_programs, n_inputs, option_sets_of):
    """N programs of the shared typed generator, compiled to GLSL and executed on both sides like the hand-written ones.
    Outside the reader's / interpreters' fragment or on GLSL-undefined executions: counted.  Anything else a Validator
    would report is shrunk (lib/shrink.py, under a budget) and reported under a key made of the class of the
    disagreement and the control skeleton of the shrunk program - never the program's number."""
    import time
    r = ctx.rng.fork("c05gen")
    progs = {}
    groups = {}
    for k in range(n_programs):
        prog = avoid_recorded_findings(wgslgen.generate(r.fork("p%d" % k), GEN_OPTS)[0])
        src = wgslgen.render(prog)
        name = "gen%d" % k
        progs[name] = prog
        groups.setdefault(option_sets_of(k), []).append((name, src, ("small", "boundary")))
    cap = Capture(ctx)
    v = Validator(cap, tools, irx, glx, en, per_program_keys=True)
    v.workers = 8          # (many small independent runs: the batches are large enough to amortise process start-up)
    for osets, ps in sorted(groups.items()):
        v.validate(ps, [OPTION_SETS[i] for i in osets], n_inputs, own=False)
    stats = dict(v.stats)
    stats["generated"] = n_programs
    stats["rejected_by_naga"] = n_programs - v.stats["programs"]
    feats = {}
    for prog in progs.values():
        for f in skeleton(prog).split("+"):
            feats[f] = feats.get(f, 0) + 1
    stats["programs_with_statement_kind"] = feats
    # programs naga rejects are valid by construction: a front-end matter (C08/C09/C10 look at those), counted here
    by_class = {}
    for it in cap.items:
        by_class.setdefault(coarse_class(it["key"]), []).append(it)
    stats["reported_classes"] = {c: len(l) for c, l in by_class.items()}
    sc = SingleCase(ctx, tools, irx, glx, en)
    t_end = time.time() + ctx.scale(240, 1200)
    for cls, items in sorted(by_class.items())[:6]:
        it = items[0]
        files = dict(it["files"])
        case = json.loads(files.get("case.json") or "null")
        key = "generated:%s" % cls
        if case and case["program"] in progs:
            inputs = json.loads(files["inputs.json"]) if "inputs.json" in files else None
            small = progs[case["program"]]
            budget = [ctx.scale(260, 1200)]

            def still(p):
                if budget[0] <= 0 or time.time() > t_end:
                    return False
                budget[0] -= 1
                return sc.run(wgslgen.render(p), case, inputs)[0] == cls
            try:
                if still(small):
                    small = shrink.shrink(small, still, max_rounds=3)
                    for f in list(small["funcs"]):           # helpers that play no part
                        trial = dict(small, funcs=[g for g in small["funcs"] if g is not f])
                        if still(trial):
                            small = trial
                    ssrc = wgslgen.render(small)
                    files["original.wgsl"] = files.get("input.wgsl", "")
                    files["input.wgsl"] = ssrc
                    text = sc.run(ssrc, case, inputs)[1]
                    if text:
                        files["original_output.glsl"] = files.get("output.glsl", "")
                        files["output.glsl"] = text
                    key += ":" + skeleton(small)
                else:
                    key += ":not-reproduced-alone"
            except Exception as e:          # the report must not be lost to a shrinking problem
                key += ":unshrunk"
                files["shrink_error.txt"] = repr(e)
        ctx.violation("generated program (%d of %d programs in this class; shrunk input in input.wgsl): %s"
                      % (len({json.loads(x["files"].get("case.json") or '{"program": ""}')["program"] for x in items}), n_programs, it["what"]),
                      files=files, key=key, broken=it["broken"])
    stats["shrink_evaluations"] = sc.evaluations
    return stats, v.distinct


def search_probe_disagreement(ctx, tools, irx, glx, en, limit):
    """tie broken: run the probe programs themselves differentially on the boundary pool"""
    def known_refuted(p):        # mirrors Glsl/Catalogue.v `refuted` (open findings, reported through the finding_* programs)
        return ((p["op"] == "select" and p["n"] > 1) or (p["op"] == "abs" and p["kind"] == "u32")
                or p["op"] in ("countLeadingZeros", "countTrailingZeros"))
    P = [p for p in glslprobe.probes() if not known_refuted(p)]
    # (fma: the ES form is unfused, which WGSL allows but differs from the fused reference in the last bit on arbitrary operands)
    progs = [("probe:%s/%s/%d" % (p["op"], p["kind"], p["n"]), glslprobe.program(p),
              ("small",) if p["op"] == "fma" else ("boundary", "small")) for p in P]
    rng = ctx.rng.fork("probe-search")
    progs = rng.shuffle(progs)[:limit]
    v = Validator(ctx, tools, irx, glx, en)
    before = len(ctx.violations)
    v.validate(progs, [{"version": 430}, {"version": 310}], 3, own=False, rtlen=16)
    return len(ctx.violations) - before, v.stats


def replay(ctx, tools, irx, glx, en):
    """bin/check C05 --replay <dir>: re-run one recorded case (input.wgsl, case.json, inputs.json) on the current tree"""
    d = ctx.replay
    src = open(os.path.join(d, "input.wgsl")).read()
    try:
        case = json.load(open(os.path.join(d, "case.json")))
    except OSError:
        case = {"program": "replay", "opts": {"version": 430}, "entry": None}
    try:
        inputs = json.load(open(os.path.join(d, "inputs.json")))
    except OSError:
        inputs = None
    r = glslcorr.compile_jobs(tools, [{"id": 0, "src": src, "opts": {"version": 430}}]).get(0) or {}
    if "ir" not in r:
        print("replay: the program no longer compiles:", str(r)[:300])
        return
    o = opts_for(case["opts"], r["ir"])
    r2 = glslcorr.compile_jobs(tools, [{"id": 0, "src": src, "opts": o}]).get(0) or {}
    v = Validator(ctx, tools, irx, glx, en)
    for epi, ep in enumerate(r2.get("eps") or []):
        if case.get("entry") not in (None, ep["name"]) or "text" not in ep:
            continue
        st, parsed = glslcorr.read_glsl(ep["text"])
        print("---- GLSL for %s (%s)\n%s" % (ep["name"], st, ep["text"]))
        if st != "ok":
            print("replay: reader:", st, parsed)
            continue
        v.structure_checks(case["program"], src, ep, parsed, r["ir"], o, True)
        irin, glin, compared = glslcorr.build_case(r["ir"], en, epi, parsed, ep["info"], ctx.rng.fork("replay"), "small", 8)
        if inputs:
            irin["globals"], irin["args"] = inputs["globals"], inputs["args"]
            if inputs.get("builtins"):
                glin["builtins"] = {k: x for k, x in inputs["builtins"].items() if k in glin["builtins"]}
            uniforms = (ep.get("info") or {}).get("Uniforms") or []
            for gi, g in enumerate(r["ir"]["GlobalVariables"]):
                blk = glslcorr.block_of_global(uniforms, g)
                if blk in glin["buffers"] and inputs["globals"][gi] is not None:
                    glin["buffers"][blk] = inputs["globals"][gi]
        a = vcheck.run_model(irx, [irin])[0]
        b = vcheck.run_model(glx, [glin])[0]
        print("replay: IR  :", json.dumps({k: a[k] for k in a if k != "globals"}), "\nreplay: GLSL:", json.dumps({k: b[k] for k in b if k != "buffers"}))
        v.judge({"ik": None, "name": case["program"], "src": src, "ep": ep["name"], "opts": case["opts"], "mode": case.get("mode", "small"),
                 "k": case.get("k", 0), "compared": compared, "text": ep["text"], "own": True, "irin": irin}, a, b)
    ctx.cov["evaluations"] = max(1, v.stats["cases"])
    ctx.cov["distinct_nontrivial"] = 2
    ctx.cov["rule"] = "replay of one recorded case"
    ctx.cov["obligations"] = ctx.cov["discharged"] = 1
    ctx.cov["checker_cmd"] = "replay (no proof step)"


def run(ctx):
    import time
    stages = {}
    t0 = time.time()

    def lap(name):
        nonlocal t0
        stages[name] = round(time.time() - t0, 1)
        t0 = time.time()
    ctx.cov["stage_seconds"] = stages
    tools = vcheck.build_harness(["glsldrive", "goextract", "nagadrive"])
    lap("build_harness")
    if getattr(ctx, "replay", None):
        replay(ctx, tools, build_tool("irrun", "Extract/IrRunExtract.v", ["IR/Syntax.v", "IR/Decode.v", "IR/Values.v", "IR/Sem.v", "Base", "Gen/IrEnums.v"]),
               build_tool("glslrun", "Extract/GlslRunExtract.v", ["Glsl/Syntax.v", "Glsl/Ops.v", "Glsl/Sem.v", "Glsl/Decode.v", "IR/Values.v", "Base"]), glslcorr.enums(tools))
        return
    generr = []

    def gw():
        try:
            return gen.regenerate(tools, ["irenums", "glsloptable"])
        except gen.GenError as e:
            generr.append(str(e))
            return []
    ok, failed, log = vcheck.proof_step(ctx, "Props/C05.v", MODEL_FILES, gen_writer=gw,
                                        extra_obligation_files=["Glsl/OpTable.v", "Glsl/CatalogueProofs.v"])
    mine = ("Glsl/", "Gen/GlslOpTable", "Props/C05")
    if not ok and not generr and not any(f.startswith(mine) for f in failed):
        # the shared Makefile / dependency file was disturbed by files of other properties: build this property's files directly
        ok, failed, log2 = direct_build(["Glsl/Syntax.v", "Glsl/Ops.v", "Glsl/Sem.v", "Glsl/Decode.v", "Glsl/Catalogue.v",
                                         "Glsl/CatalogueProofs.v", "Gen/GlslOpTable.v", "Glsl/OpTable.v", "Props/C05.v"])
        log = log2
        ctx.cov["make_fallback"] = "shared make failed outside this property's files; compiled directly with coqc"
        if ok:
            ctx.cov["discharged"] = ctx.cov["obligations"]
            ctx.cov["print_assumptions"] = {"Props/C05.v": {"rc": 0, "closed": log.count("Closed under the global context"),
                                                            "axioms": vcheck.assumptions_from_log(log)}}
    ctx.cov["trusted_base"] += [
        "axioms under every C05 theorem come from Flocq/Reals through Base/F32.v (binary32 operations referenced by the GLSL evaluator): "
        "ClassicalDedekindReals.sig_forall_dec, ClassicalDedekindReals.sig_not_dec, FunctionalExtensionality.functional_extensionality_dep "
        "(+ Classical_Prop.classic where Flocq uses it); the integer leaf lemmas of Glsl/CatalogueProofs.v Part 0 do not use them",
        "GLSL semantics: coq/Glsl/Ops.v + Sem.v = my transcription of GLSL 4.60 / ES 3.20 (readings of silent passages: coq/Glsl/DialectChoices.md)",
        "reader: lib/glslread.py (tokenizer + recursive-descent parser for the emitted GLSL subset, decimal->binary32 by exact rationals); "
        "coq/Glsl/Decode.v",
        "shared reference semantics of the IR: coq/IR/Sem.v, IR/Values.v, Base/Bits32.v, Base/F32.v (tool irrun); IR decoder coq/IR/Decode.v",
        "probe + harness: lib/glslprobe.py, lib/glslcorr.py, harness/cmd/glsldrive (glsl.Compile per entry point with options), goextract (ir enums)",
        "extraction: ExtrOcamlBasic only; generic OCaml JSON driver; OCaml 4.13.1",
        "std140/std430 rules: lib/glslcorr.py glsl_layout = my transcription of OpenGL 4.6 section 7.6.2.2",
    ]
    ctx.assumptions = [
        "single invocation per run (barriers no-ops, atomics sequential), as in the IR reference semantics",
        "inputs are restricted to executions free of GLSL-undefined behaviour (the property's quantifier); operator lemmas carry the "
        "definedness hypotheses explicitly",
        "float results are compared bit-exactly under the correctly-rounded reading of GLSL float arithmetic (DialectChoices.md 3); "
        "differential inputs keep float arithmetic exact",
        "statement-level preservation is validated per program, not proved (no cl_check soundness theorem yet): partial",
    ]
    broken = None
    if generr:
        broken = "probe could not regenerate coq/Gen/GlslOpTable.v: " + generr[0]
    elif not ok:
        broken = "Coq development no longer checks (operator-table obligation or proofs): %s" % (failed or log[-800:])
    gl = getattr(gen.gen_glsloptable, "last", None)
    ctx.cov["probe_table"] = gl
    lap("proof_step")
    irx = build_tool("irrun", "Extract/IrRunExtract.v", ["IR/Syntax.v", "IR/Decode.v", "IR/Values.v", "IR/Sem.v", "Base", "Gen/IrEnums.v"])
    glx = build_tool("glslrun", "Extract/GlslRunExtract.v", ["Glsl/Syntax.v", "Glsl/Ops.v", "Glsl/Sem.v", "Glsl/Decode.v", "IR/Values.v", "Base"])
    en = glslcorr.enums(tools)
    global SHAPES
    SHAPES = cfskel.Shapes(cfskel.build_exe(), "glsl")
    SHAPES.ctx = ctx
    lap("extracted_tools")
    # ---- differential validation of whole programs
    v = Validator(ctx, tools, irx, glx, en)
    nopt = ctx.scale(2, len(OPTION_SETS))
    rot = ctx.rng.fork("opts")
    own = list(glslprogs.P)
    # each own program under the two base profiles in the quick tier (rotating the richer sets), all sets in thorough
    if ctx.thorough:
        v.validate(own, OPTION_SETS, 6, own=True)
    else:
        # quick: every program under one base profile (alternating desktop / ES) and one rotating richer option set
        extra = OPTION_SETS[2 + rot.below(len(OPTION_SETS) - 2)]
        v.validate(own[0::2], [OPTION_SETS[0], extra], 1, own=True)
        v.validate(own[1::2], [OPTION_SETS[1], extra], 1, own=True)
    # layout probes (structure checks only need the compile; they run through validate with zero-cost inputs)
    v.validate([(n, s, ("small",)) for n, s in glslprogs.LAYOUT], [OPTION_SETS[0], OPTION_SETS[1]], 1, own=True)
    own_stats = dict(v.stats)
    lap("validate_own")
    # corpus compute shaders
    corp = [(n, s, ("small",)) for n, s in nagarun.corpus()]
    if not ctx.thorough:
        corp = ctx.rng.fork("corpus").shuffle(corp)[:40]
    vc = Validator(ctx, tools, irx, glx, en)
    vc.validate(corp, [OPTION_SETS[0], OPTION_SETS[1]] if not ctx.thorough else OPTION_SETS[:4], ctx.scale(1, 3), own=False)
    lap("validate_corpus")
    # generated programs (shared typed generator): quick = each under one base profile (desktop / ES alternating);
    # thorough = one base profile and one of the richer option sets (binding map, writer flags, ...)
    if ctx.thorough:
        gstats, gdistinct = generated_leg(ctx, tools, irx, glx, en, GEN_THOROUGH, 2, lambda k: (k % 2, 2 + (k // 2) % (len(OPTION_SETS) - 2)))
    else:
        gstats, gdistinct = generated_leg(ctx, tools, irx, glx, en, GEN_QUICK, 1, lambda k: (k % 2,))
    lap("validate_generated")
    ctx.cov["validation_own_programs"] = own_stats
    ctx.cov["validation_corpus"] = vc.stats
    ctx.cov["validation_generated"] = gstats
    ctx.cov["control_flow_shapes"] = SHAPES.evidence()
    ctx.cov["programs"] = own_stats["programs"] + vc.stats["programs"] + gstats["programs"]
    ctx.cov["disagreements_checked"] = own_stats["cases"] + vc.stats["cases"] + gstats["cases"]
    ctx.cov["evaluations"] = own_stats["cases"] + vc.stats["cases"] + gstats["cases"] + (gl or {}).get("rows", 0)
    ctx.cov["distinct_nontrivial"] = len(v.distinct) + len(vc.distinct) + len(gdistinct)
    ctx.cov["traces_validated_against_impl"] = own_stats["agree"] + vc.stats["agree"] + gstats["agree"]
    ctx.cov["rule"] = ("operator table: one probe per (operator, kind, shape, profile), all must be classified by the Coq obligation; "
                       "whole programs: (program, entry point, option set, input) executed by irrun and glslrun, final storage buffers "
                       "compared; distinct = distinct (program, entry point, input buffer contents) that ran to completion on both sides; "
                       "non-trivial = the entry point wrote at least one compared buffer")
    if broken:
        found, pst = search_probe_disagreement(ctx, tools, irx, glx, en, ctx.scale(200, 2000))
        ctx.cov["probe_search"] = pst
        if found == 0 and not ctx.violations:
            ctx.violation(broken + "\n(no probe program with a differing result was found on the boundary pool)", found_input=False,
                          broken=broken, files={"coq_log_tail.txt": log[-4000:]})
        elif found == 0:
            ctx.cov["broken_tie"] = broken
            ctx.violation(broken, found_input=False, broken=broken, files={"coq_log_tail.txt": log[-4000:]}, key="tie:optable")
        else:
            ctx.cov["broken_tie"] = broken
