"""C03 - HLSL output computes what the WGSL program means.

Deciding method
  proof   coq/Hlsl/CatalogueProofs.v: every expression template the HLSL backend emits for an IR
          operator / math builtin / conversion, with the generated helper functions read back from
          the emitted text, computes the WGSL meaning for ALL 32-bit operands under HLSL's own
          operator semantics (coq/Hlsl/Ops.v, Sem.v) and has no undefined behaviour
          (catalogue_sound; per-shape lemmas for vector / matrix operands; refuted templates with
          witnesses).
  tie R   the probe (gen.py `hlsloptable`) regenerates coq/Gen/HlslOpTable.v from /repo on every
          run; coq/Hlsl/OpTable.v obliges every probed (template, helpers) to be a catalogue entry.
  tie V   differential validation of whole programs: the IR interpreter (irrun, coq/IR/Sem.v) and
          the HLSL interpreter (hlslrun, coq/Hlsl/Sem.v) on the text naga emitted, same inputs
          (boundary pool), final storage buffers compared byte for byte, over hlsl.Options sets.
          Statement-level preservation is validated per program, not proved (partial).
  search  when the table tie breaks the stray template's own probe program is run differentially
          on the boundary pool to find a failing (operator, type, operands)."""
import json
import os
import re

import c03diff as D
import c03progs as P
import gen
import nagarun
import ocamlbuild
import vcheck
import cfskel

LEVEL = "proof"

MODEL_FILES = ["Hlsl/Syntax.v", "Hlsl/Ops.v", "Hlsl/Sem.v", "Hlsl/Decode.v", "Hlsl/Catalogue.v", "Hlsl/FloatConv.v", "Hlsl/CatalogueProofs.v",
               "Hlsl/OpTable.v", "Gen/HlslOpTable.v", "IR/Values.v", "IR/Sem.v", "Base/Bits32.v", "Base/F32.v"] + cfskel.TARGET_FILES


def rows_file():
    return os.path.join(vcheck.BUILD, "c03", "optable_rows.json")


def load_rows():
    with open(rows_file()) as f:
        return json.load(f)


def run(ctx):
    import time
    t0 = time.time()
    phase = {}

    def mark(name):
        nonlocal t0
        phase[name] = round(time.time() - t0, 1)
        t0 = time.time()
    tools = vcheck.build_harness(["hlsldrive", "goextract"])
    mark("build_harness")
    # recogniser of the control-flow encodings (coq/Target/Shapes.v) over every HLSL text the reader reads
    shapes = cfskel.Shapes(cfskel.build_exe(), "hlsl")
    shapes.ctx = ctx
    del D.PROGRAM_OBSERVERS[:]
    D.PROGRAM_OBSERVERS.append(lambda pr: pr.ast is not None and shapes.add(
        "%s:%s" % (pr.name, pr.optname), pr.ast, {"emitted.hlsl": pr.hlsl, "case.txt": "%s option set %s" % (pr.name, pr.optname)}))
    ok, failed, log = vcheck.proof_step(
        ctx, "Props/C03.v", MODEL_FILES,
        gen_writer=lambda: gen.regenerate(tools, ["irenums", "hlsloptable"]),
        extra_obligation_files=["Hlsl/OpTable.v", "Hlsl/CatalogueProofs.v"])
    D.reset_enums()
    mark("probe+coq")
    ctx.cov["trusted_base"] += [
        "Flocq 4 / Coq Reals axioms named above (every Hlsl theorem mentions the f32 operators of Base/F32.v)",
        "reader: lib/hlslread.py (tokeniser, operator precedence, literal conversion) and the JSON decoder coq/Hlsl/Decode.v",
        "my transcription of HLSL / Direct3D operator and intrinsic semantics: coq/Hlsl/Ops.v, Sem.v; choices where the "
        "documentation is silent: coq/Hlsl/DialectChoices.md",
        "WGSL-side meaning: coq/Base/Bits32.v, Base/F32.v, IR/Values.v, IR/Sem.v (shared)",
        "probe: lib/c03gen.py + harness/cmd/hlsldrive (micro-programs, template extraction, erasure of vector type names "
        "of the probed width); harness: lib/c03diff.py (WGSL byte layout of values from the IR types' Offset/Stride/Span)",
        "extraction: ExtrOcamlBasic only; ocaml/common/driver.ml",
        "cbuffer byte packing is NOT modelled (uniform values are fed structurally; C07 covers layout)",
    ]
    ctx.assumptions = [
        "single invocation (barriers are no-ops, atomics sequential)",
        "NaN / infinity dependent results are not compared (WGSL leaves them indeterminate); an input on which only "
        "the NaN/inf variant disagrees is counted as special_float_only",
        "f32 -> i32/u32 for operands >= 2^31 / 2^32: Base/F32.v saturates to INT_MAX / UINT_MAX, the emitted helper clamps to the "
        "largest f32 below (WGSL 'clamp to the values representable in both types'); recorded as an open question, not compared",
        "programs are compared only on inputs on which the IR reference execution is defined (in-bounds indices, fuel)",
    ]
    broken = None
    if not ok:
        broken = "Coq development no longer checks: %s" % (failed or log[-800:])

    from concurrent.futures import ThreadPoolExecutor
    with ThreadPoolExecutor(2) as ex:
        f_ir = ex.submit(ocamlbuild.build, "irrun")
        f_hl = ex.submit(ocamlbuild.build, "hlslrun")
        irrun = f_ir.result()
        hlslrun = None
        try:
            hlslrun = f_hl.result()
        except RuntimeError as e:
            broken = broken or ("extraction of the HLSL interpreter failed: %s" % str(e)[-400:])

    mark("extract_interpreters")
    rows = [r for r in load_rows() if "problem" not in r]
    problems = [r for r in load_rows() if "problem" in r]
    ctx.cov["probe"] = {"rows": len(rows), "unreadable": len(problems),
                        "distinct_keys": len({(r["op"], r["ty"]) for r in rows})}
    stray = []
    statuses = {}
    if hlslrun:
        rr = vcheck.run_model(hlslrun, [{"rows": [{k: x[k] for k in ("op", "ty", "shape", "template", "helpers")} for x in rows]}])[0]
        if rr.get("ok"):
            stray = rr["stray"]
            for op, ty, st in rr["catalogue"]:
                statuses[(op, ty)] = st
        else:
            broken = broken or ("probe rows do not decode: %s" % rr.get("msg"))
    hist = {}
    for st in statuses.values():
        hist[st] = hist.get(st, 0) + 1
    ctx.cov["catalogue"] = {"entries": len(statuses), "by_status": hist, "probed_rows_not_in_catalogue": len(stray)}

    rng = ctx.rng.fork("c03")
    by_key = {(r["op"], r["ty"], r["shape"]): r for r in rows}

    # -- refuted templates are findings, reported on every run (KNOWN-FINDING when listed)
    for (op, ty), st in sorted(statuses.items()):
        if st == "Refuted":
            r = next((x for x in rows if x["op"] == op and x["ty"] == ty), None)
            ctx.violation("the HLSL template emitted for %s on %s does not compute the WGSL meaning "
                          "(coq/Hlsl/CatalogueProofs.v hlsl_%s_%s_refuted gives the witness operand)" % (op, ty, op, ty),
                          files={"probe.wgsl": r["src"] if r else "", "emitted.hlsl": r["hlsl"] if r else ""},
                          key="refuted:%s/%s" % (op, ty))

    # -- the table tie: stray templates -> search for a failing operand with the probe program itself
    if problems:
        for pr in problems[:5]:
            ctx.violation("probe %s: the emitted statement could not be read back (%s)" % (pr["problem"], pr["why"]),
                          found_input=False, key="probe-unreadable:" + pr["problem"],
                          broken="gen_table_all_readable (coq/Hlsl/OpTable.v)")
    if stray and hlslrun:
        seen = set()
        for op, ty, sh in stray:
            if (op, ty) in seen:
                continue
            seen.add((op, ty))
            r = by_key[(op, ty, sh)]
            stats, recs = D.validate(tools, irrun, hlslrun, [("probe:%s/%s/%s" % (op, ty, sh), r["src"])], ["default51"],
                                     ctx.scale(24, 96), rng.fork("stray/%s/%s" % (op, ty)))
            bad = [x for x in recs if x["verdict"] in ("mismatch", "hlsl_ub")]
            what = ("the HLSL backend now emits a template for %s on %s (%s) that is not in the proved catalogue "
                    "(gen_table_in_catalogue of coq/Hlsl/OpTable.v fails)" % (op, ty, sh))
            if bad:
                b = bad[0]
                ctx.violation(what + "\nfailing input found: " + b["detail"],
                              files={"probe.wgsl": r["src"], "emitted.hlsl": r["hlsl"], "inputs.json": json.dumps(b["inputs"]),
                                     "template.json": json.dumps({"template": r["template"], "helpers": r["helpers"]})},
                              key="optable:%s/%s" % (op, ty), broken="gen_table_in_catalogue")
            else:
                ctx.violation(what + "\n(no operand on which it differs from the WGSL meaning was found on the boundary pool: "
                              "%d runs agree)" % stats["agree"],
                              files={"probe.wgsl": r["src"], "emitted.hlsl": r["hlsl"],
                                     "template.json": json.dumps({"template": r["template"], "helpers": r["helpers"]})},
                              found_input=False, key="optable:%s/%s" % (op, ty), broken="gen_table_in_catalogue")

    # -- differential validation of whole programs
    totals = {}
    if hlslrun:
        optsets = ["default51", "bare", "sm60"] if not ctx.thorough else sorted(D.OPTION_SETS)
        n_in = ctx.scale(2, 8)
        stats, recs = D.validate(tools, irrun, hlslrun, P.PROGRAMS + P.KNOWN, optsets, n_in, rng.fork("hand"))
        totals["handwritten"] = stats
        report(ctx, recs, strict=True)
        mark("validate_handwritten")
        # declarator form of module-scope private arrays: HLSL (like C) puts the dimensions after the name; the writer does
        # so for groupshared variables, locals, parameters and constants (getTypeNameWithArraySuffix, "use array suffix for
        # correct declaration") but not for `static` private variables.  The reader accepts the form (as the array it
        # evidently stands for) so that such programs are still validated; the ill-formed declarator is reported here.
        pr = nagarun.parallel_batches(tools["hlsldrive"], "compile", [{"id": 0, "src": PRIVATE_ARRAY_PROBE, "want": [], "opts": D.OPTION_SETS["default51"]}],
                                      per_job_timeout=30.0, chunk=1).get(0) or {}
        m = re.search(r"^static\s+\w+((?:\[\d+\])+)\s+(\w+)\s*=", pr.get("hlsl") or "", re.M)
        ctx.cov["private_array_declarator"] = m.group(0) if m else "dimensions after the name"
        if m:
            ctx.violation("HLSL: a module-scope private array is declared as `%s ...`: the dimensions precede the name, which is not an HLSL "
                          "declarator (DXC: 'brackets are not allowed here; to declare an array, place the brackets after the name'); "
                          "every other array declaration the writer emits puts them after the name" % m.group(0).rstrip("= "),
                          files={"input.wgsl": PRIVATE_ARRAY_PROBE, "emitted.hlsl": pr.get("hlsl") or ""},
                          key="hlsl:private-array-declarator")
        qstats, qrecs = D.validate(tools, irrun, hlslrun, P.QUESTIONS, ["default51"], ctx.scale(6, 24), rng.fork("questions"))
        ctx.cov["open_questions"] = {"runs": qstats["runs"], "agree": qstats["agree"],
                                     "disagree": sorted({(x["program"], x["detail"][:100]) for x in qrecs
                                                         if x["verdict"] in ("mismatch", "hlsl_ub")})[:6]}
        # generated programs (lib/wgslgen.py): shapes nobody wrote by hand - helpers called only from continuing
        # blocks, run-time indices into vectors / matrix columns / module constants, pointer lets, nested control flow.
        # The constructs with a recorded HLSL finding (clz/ctz/sign, covered by P.KNOWN) are kept out of them.
        import wgslgen
        import shrink as shrinker
        ng = ctx.scale(60, 1200)
        gasts, gprogs = {}, []
        for i in range(ng):
            ast, src = wgslgen.generate(rng.fork("gen%d" % i), GEN_OPTS)
            gasts["gen:%d" % i] = ast
            gprogs.append(("gen:%d" % i, src))
        gsets = ["default51"] if not ctx.thorough else ["default51", "bare", "sm60"]
        gstats, grecs = D.validate(tools, irrun, hlslrun, gprogs, gsets, ctx.scale(2, 4), rng.fork("gen-inputs"))
        totals["generated"] = gstats
        bad = [r for r in grecs if r["verdict"] in ("mismatch", "hlsl_ub", "reader_crash")]
        done = set()
        for r in bad[:40]:
            if r["program"] in done:
                continue
            done.add(r["program"])

            def still(p2, _opt=r["opt"], _v=r["verdict"]):
                try:
                    _s, rr = D.validate(tools, irrun, hlslrun, [("x", wgslgen.render(p2))], [_opt], 3, vcheck.Rng(11).fork("shrink"))
                except Exception:
                    return False
                return any(x["verdict"] == _v for x in rr)
            small = gasts[r["program"]]
            try:
                if still(small):
                    small = shrinker.shrink(small, still, max_rounds=3)
            except Exception:
                pass
            ssrc = wgslgen.render(small)
            key = "gen:%s:%s" % (r["verdict"], feature_key(small))
            what = {"mismatch": "HLSL output of a generated program (options %s) computes different buffer contents than the WGSL program: %s",
                    "hlsl_ub": "HLSL output of a generated program (options %s) has undefined behaviour where WGSL defines the result: %s",
                    "reader_crash": "the HLSL reader crashed on the output of a generated program (options %s): %s"}[r["verdict"]] % (r["opt"], r["detail"])
            ctx.violation(what, files={"input.wgsl": r.get("src", ""), "shrunk.wgsl": ssrc, "emitted.hlsl": r.get("hlsl") or "",
                                       "inputs.json": json.dumps(r.get("inputs")), "detail.json": json.dumps(
                                           {k: r.get(k) for k in ("opt", "ep", "input", "detail", "ir_result", "hlsl_result")})},
                          key=key)
        mark("validate_generated")
        corpus = nagarun.corpus()
        if not ctx.thorough:
            corpus = rng.fork("corpus").shuffle(corpus)[:36]
        cstats, crecs = D.validate(tools, irrun, hlslrun, [("corpus:" + n, s) for n, s in corpus],
                                   ["default51"] if not ctx.thorough else ["default51", "bare", "sm66"],
                                   ctx.scale(1, 3), rng.fork("corpus-inputs"))
        totals["corpus"] = cstats
        report(ctx, crecs, strict=False)
        mark("validate_corpus")
        # helper overload resolution on the emitted text (lib/hlslhelpers.py): the catalogue lemmas are about a helper body at
        # the operand type of the IR operator; a call that binds to an overload of another type (implicit conversion) is outside
        # them.  Whole corpus (64-bit and 16-bit shaders included) + programs using one wrapped operator at two widths.
        import hlslhelpers
        hp = [("corpus:" + n, s) for n, s in nagarun.corpus()] + hlslhelpers.width_mix_programs()
        hres = nagarun.parallel_batches(tools["hlsldrive"], "compile", [{"id": i, "src": s, "want": [], "opts": D.OPTION_SETS["default51"]}
                                                                       for i, (_n, s) in enumerate(hp)], per_job_timeout=30.0, chunk=16)
        hstat = {"programs": len(hp), "compiled": 0, "helper_overloads": 0, "helper_calls": 0, "calls_with_typed_arguments": 0, "problems": 0}
        seen_h = set()
        for i, (n, s) in enumerate(hp):
            r = hres.get(i) or {}
            if "hlsl" not in r:
                continue
            hstat["compiled"] += 1
            probs, st = hlslhelpers.check(r["hlsl"])
            for k2 in ("helper_overloads", "helper_calls", "calls_with_typed_arguments"):
                hstat[k2] += st[k2]
            for kind, helper, types, avail, line in probs:
                hstat["problems"] += 1
                key = "hlsl:helper-overload:%s:%s:%s" % (kind, helper, "/".join(str(t) for t in types))
                if key in seen_h:
                    continue
                seen_h.add(key)
                ctx.violation("HLSL: the call `%s` in the output for %s passes arguments of type (%s) but the emitted text declares %s "
                              "only for %s: HLSL resolves the call through implicit conversions (64-bit operands are truncated to 32 bits, "
                              "float to half ...), so the helper does not compute the WGSL operator at the operand type"
                              % (line, n, ", ".join(str(t) for t in types), helper, avail or "no type at all"),
                              files={"input.wgsl": s, "emitted.hlsl": r["hlsl"]}, key=key)
        ctx.cov["helper_overload_resolution"] = hstat
        shapes.run()
        ctx.cov["control_flow_shapes"] = shapes.evidence()
        mark("helper_overloads")
        ctx.cov["phase_s"] = phase
        for s in totals.values():
            for smp in s.pop("samples", []):
                ctx.sample(smp)
        agree = sum(s["agree"] for s in totals.values())
        nontrivial = sum(s.get("agree_and_wrote_memory", 0) for s in totals.values())
        runs = sum(s["runs"] for s in totals.values())
        ctx.cov["validation"] = totals
        ctx.cov["option_sets"] = {n: D.OPTION_SETS[n] for n in optsets}
        ctx.cov["evaluations"] = runs + len(rows)
        ctx.cov["traces_validated_against_impl"] = agree
        ctx.cov["distinct_nontrivial"] = nontrivial
        ctx.cov["rule"] = ("probe: one micro-program per (operator | builtin | conversion, scalar kind, scalar/vec2/vec3/vec4 or matrix "
                           "shape), distinct by key; validation: (program, hlsl.Options set, input) triples, inputs drawn from the "
                           "boundary pool (0, +-1, INT_MIN, INT_MAX, UINT_MAX, 31/32/33, subnormals, NaN, inf) and a small-number "
                           "pool; non-trivial = both interpreters completed, every storage buffer agrees byte for byte and the run changed at "
                           "least one buffer (distinct (program, options, input) triples, counted)")
        ctx.sample({"probe_row": {k2: rows[0][k2] for k2 in ("op", "ty", "shape", "template")}} if rows else {})
        ctx.cov["programs"] = len(P.PROGRAMS) + len(P.KNOWN) + len(corpus) + len(gprogs)
    if broken and not ctx.violations:
        ctx.violation(broken, found_input=False, broken=broken, key="c03-broken-tie")
    elif broken:
        ctx.cov["broken_tie"] = broken


PRIVATE_ARRAY_PROBE = """@group(0) @binding(0) var<storage, read_write> o: array<u32, 4>;
var<private> p: array<u32, 2>;
@compute @workgroup_size(1) fn main() { p[1] = 3u; o[0] = p[0] + p[1]; }
"""

GEN_OPTS = {"avoid": ("countLeadingZeros", "countTrailingZeros", "sign:f32")}


def feature_key(prog):
    """what is left in a shrunk wgslgen program, as a stable signature: builtins, operators and statement kinds of the
    entry point and helper bodies (sorted, truncated)"""
    feats = set()

    def walk(x):
        if isinstance(x, list):
            for y in x:
                walk(y)
        elif isinstance(x, dict):
            if x.get("e") == "builtin":
                feats.add(x["f"])
            elif x.get("e") in ("bin", "un"):
                feats.add(x["e"] + x["op"])
            elif x.get("e") in ("idx", "swz", "deref", "addr", "conv", "bitcast", "call", "select", "cons"):
                feats.add(x["e"])
            if x.get("s") in ("switch", "loop", "for", "while", "compound", "incr", "decr", "callstmt"):
                feats.add("s:" + x["s"])
            for v in x.values():
                walk(v)
    walk(prog["entry"]["body"])
    walk([f["body"] for f in prog["funcs"]])
    return ",".join(sorted(feats))[:100]


def report(ctx, recs, strict):
    """strict: hand-written programs are inside the fragment by construction - leaving it is a broken tie"""
    seen = set()
    for r in recs:
        v = r["verdict"]
        name = r["program"]
        if v in ("mismatch", "hlsl_ub", "reader_crash"):
            key = {"mismatch": "diff:", "hlsl_ub": "ub:", "reader_crash": "reader:"}[v] + name
            if key in seen:
                continue
            seen.add(key)
            what = {"mismatch": "HLSL output of %s (options %s) computes different buffer contents than the WGSL program: %s",
                    "hlsl_ub": "HLSL output of %s (options %s) has undefined behaviour where WGSL defines the result: %s",
                    "reader_crash": "the HLSL reader crashed on the output of %s (options %s): %s"}[v] % (name, r["opt"], r["detail"])
            ctx.violation(what, files={"input.wgsl": r.get("src", ""), "emitted.hlsl": r.get("hlsl") or "",
                                       "inputs.json": json.dumps(r.get("inputs")), "detail.json": json.dumps(
                                           {k: r.get(k) for k in ("opt", "ep", "input", "detail", "ir_result", "hlsl_result")})},
                          key=key)
        elif v == "fuel" and strict:
            key = "fuel:" + name
            if key in seen:
                continue
            seen.add(key)
            ctx.violation("the HLSL emitted for %s (options %s) does not terminate within %d steps on an input on which the WGSL "
                          "program terminates within %d (input %s of entry point %s)"
                          % (name, r["opt"], D.HLSL_FUEL, D.IR_FUEL, r.get("input"), r.get("ep")),
                          files={"detail.json": json.dumps(r)}, key=key)
        elif v == "out_of_fragment" and strict:
            key = "oof:" + name
            if key in seen:
                continue
            seen.add(key)
            ctx.violation("the HLSL emitted for %s (options %s), a program inside the validated fragment, cannot be executed: %s"
                          % (name, r["opt"], r["detail"]), files={"detail.json": json.dumps(r)}, found_input=False, key=key,
                          broken="differential validation of " + name)
