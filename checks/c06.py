"""C06 -- compile-time evaluation agrees with run-time evaluation.

Deciding method: Coq theorems (Props/C06.v) over faithful models of naga's two constant
evaluators (Fold/FoldModel.v function scope, Fold/ModEvalModel.v module scope, Fold/FoldFloat.v
floats via Flocq) against a transcription of WGSL's const-expression rules whose values are the
run-time operations of Base/Bits32 (Fold/WgslConst.v).  Ties, re-checked on every run:
  R  the switch tables / bodies of the folder's leaf functions are regenerated from lower.go
     (Gen/FoldTables.v) and must equal the text the models were written from (Fold/FoldGen.v);
  C  the extracted models and naga are run on the same expression trees, written in every
     syntactic position the property lists, and must produce the same literal (type and bits);
     the run-time side: the same expression with operands loaded from a buffer must lower to the
     un-folded Binary/Unary/Math/As node (whose meaning is Bits32's by C01).
Where the proved-faithful model disagrees with WGSL (the `_refuted` theorems) naga violates the
property: each class of disagreement has a stable key and is a known finding."""
import collections
import json

import foldcorr as FC
import gen
import nagarun
import ocamlbuild
import vcheck

LEVEL = "proof"

H32, M32, H64 = 1 << 31, 1 << 32, 1 << 63

POOL_I = [0, 1, -1, 2, -2, 3, 5, 7, 31, 32, 33, -31, -32, -33, H32 - 1, -H32, H32 - 2, -H32 + 1, 1 << 30, (1 << 30) + 1,
          (1 << 30) - 1, -(1 << 30), 65535, 65536, -65536, 46341, -46341]
POOL_U = [0, 1, 2, 3, 5, 7, 31, 32, 33, 63, 64, M32 - 1, M32 - 2, H32, H32 - 1, H32 + 1, 1 << 30, 65535, 65536, 65537]
POOL_A = [0, 1, -1, 2, 3, -7, 31, 32, 33, H32 - 1, -H32, H32, M32 - 1, M32, M32 + 1, -H32 - 1, 1 << 62, H64 - 1, -H64 + 1,
          1 << 53, (1 << 53) + 1]
ARITH = ["+", "-", "*", "/", "%", "&", "|", "^"]
CMP = ["==", "!=", "<", "<=", ">", ">="]
SHIFT = ["<<", ">>"]
MATH1 = ["abs", "sign", "countOneBits", "countLeadingZeros", "countTrailingZeros", "reverseBits", "firstLeadingBit", "firstTrailingBit"]


def sub(pool, n, rng):
    """the first boundary values plus a seeded sample, n in all"""
    if n >= len(pool):
        return list(pool)
    head = pool[:max(3, n // 2)]
    rest = [x for x in pool if x not in head]
    return head + rng.shuffle(rest)[:n - len(head)]


def rand32(rng, ty):
    k = rng.below(6)
    if k == 0:
        v = rng.below(M32)
    elif k == 1:
        v = 1 << rng.below(32)
    elif k == 2:
        v = (1 << rng.below(32)) - 1
    elif k == 3:
        v = (1 << rng.below(32)) + 1
    elif k == 4:
        v = rng.below(70)
    else:
        v = M32 - 1 - rng.below(70)
    v %= M32
    if ty == "i32":
        return v - M32 if v >= H32 else v
    return v


def binary_cases(pos, tys, pools, rng, nrand):
    out = []
    for ty in tys:
        pool = pools[ty]
        mk = lambda v: FC.typed(ty, v)
        pairs = [(a, b) for a in pool for b in pool] + [(rand32(rng, ty), rand32(rng, ty)) for _ in range(nrand)]
        for op in ARITH + CMP:
            rt = "bool" if op in CMP else ty
            for a, b in pairs:
                out.append(FC.Case(pos, rt, ["bin", op, mk(a), mk(b)]))
        spairs = [(a, b) for a in pool for b in pools["u32"]] + [(rand32(rng, ty), rng.below(70)) for _ in range(nrand)]
        for op in SHIFT:
            for a, b in spairs:
                out.append(FC.Case(pos, ty, ["bin", op, mk(a), FC.u32(b)]))
    return out


def unary_cases(pos, pools):
    out = []
    for a in pools["i32"]:
        out.append(FC.Case(pos, "i32", ["un", "-", FC.i32(a)]))
        out.append(FC.Case(pos, "i32", ["un", "~", FC.i32(a)]))
        for t in ("i32", "u32", "bool"):
            out.append(FC.Case(pos, t, ["as", t, FC.i32(a)]))
    for a in pools["u32"]:
        out.append(FC.Case(pos, "u32", ["un", "~", FC.u32(a)]))
        for t in ("i32", "u32", "bool"):
            out.append(FC.Case(pos, t, ["as", t, FC.u32(a)]))
    for a in pools["ai"]:
        if a > -H64 + 1:
            out.append(FC.Case(pos, "i32", ["un", "-", FC.ai(a)]))
            out.append(FC.Case(pos, "i32", ["un", "~", FC.ai(a)]))
        for t in ("i32", "u32", "bool"):
            out.append(FC.Case(pos, t, ["as", t, FC.ai(a)]))
    for b in (0, 1):
        out.append(FC.Case(pos, "bool", ["un", "!", FC.boolean(b)]))
        for t in ("i32", "u32", "bool"):
            out.append(FC.Case(pos, t, ["as", t, FC.boolean(b)]))
        for c in (0, 1):
            for op in ("==", "!=", "&", "|", "&&", "||"):
                out.append(FC.Case(pos, "bool", ["bin", op, FC.boolean(b), FC.boolean(c)]))
            out.append(FC.Case(pos, "bool", ["bin", "&&", ["bin", "<", FC.i32(b), FC.i32(1)], FC.boolean(c)]))
            out.append(FC.Case(pos, "bool", ["bin", "||", ["bin", "<", FC.i32(b), FC.i32(1)], FC.boolean(c)]))
    return out


def math_cases(pos, pools, n3):
    out = []
    for ty in ("i32", "u32", "ai"):
        pool = pools[ty]
        rt = "i32" if ty == "ai" else ty
        mk = lambda v: FC.typed(ty, v)
        for f in MATH1:
            if f == "sign" and ty == "u32":
                continue
            for a in pool:
                out.append(FC.Case(pos, rt, ["m1", f, mk(a)]))
        for f in ("min", "max"):
            for a in pool:
                for b in pool:
                    out.append(FC.Case(pos, rt, ["m2", f, mk(a), mk(b)]))
        p3 = pool[:n3]
        for a in p3:
            for b in p3:
                for c in p3:
                    out.append(FC.Case(pos, rt, ["m3", "clamp", mk(a), mk(b), mk(c)]))
        for a in pool[:5]:
            for b in pool[:5]:
                for c in (0, 1):
                    out.append(FC.Case(pos, rt, ["sel", mk(a), mk(b), FC.boolean(c)]))
    for a in pools["ai"][:10]:
        for b in pools["i32"][:6]:
            out.append(FC.Case(pos, "i32", ["m2", "max", FC.ai(a), FC.i32(b)]))
            out.append(FC.Case(pos, "i32", ["m2", "min", FC.i32(b), FC.ai(a)]))
    out.append(FC.Case(pos, "i32", ["m3", "extractBits", FC.i32(255), FC.u32(4), FC.u32(2)]))
    return out


def abstract_cases(pos, pools):
    out = []
    pa = pools["ai"]
    for op in ARITH + CMP + SHIFT:
        rt = "bool" if op in CMP else "i32"
        for a in pa:
            for b in pa:
                if op in SHIFT and b < 0:
                    continue
                out.append(FC.Case(pos, rt, ["bin", op, FC.ai(a), FC.ai(b)]))
    for op in ARITH + CMP:
        for a in pa:
            for b in pools["i32"][:8]:
                rt = "bool" if op in CMP else "i32"
                out.append(FC.Case(pos, rt, ["bin", op, FC.ai(a), FC.i32(b)]))
                out.append(FC.Case(pos, rt, ["bin", op, FC.i32(b), FC.ai(a)]))
            for b in pools["u32"][:8]:
                rt = "bool" if op in CMP else "u32"
                out.append(FC.Case(pos, rt, ["bin", op, FC.ai(a), FC.u32(b)]))
                out.append(FC.Case(pos, rt, ["bin", op, FC.u32(b), FC.ai(a)]))
    for op in SHIFT:
        for a in pools["i32"]:
            for b in pa:
                if b >= 0:
                    out.append(FC.Case(pos, "i32", ["bin", op, FC.i32(a), FC.ai(b)]))
        for a in pa:
            for b in pools["u32"]:
                out.append(FC.Case(pos, "i32", ["bin", op, FC.ai(a), FC.u32(b)]))
    return out


def random_tree(rng, ty, depth, pools, module=False):
    pool = pools[ty]
    if depth == 0 or rng.chance(3, 10):
        v = rng.choice(pool) if rng.chance(1, 2) else rand32(rng, ty)
        t = FC.typed(ty, v)
        if module and ty == "i32" and v < 0:
            t = ["un", "-", FC.i32(-v)] if v > -H32 else FC.i32(0)
        if rng.chance(1, 10):
            t = ["un", "~", t]
        return t
    op = rng.choice(ARITH + SHIFT)
    if op in SHIFT:
        return ["bin", op, random_tree(rng, ty, depth - 1, pools, module), FC.u32(rng.choice([0, 1, 2, 5, 31, 32]))]
    if not module and rng.chance(1, 8):
        f = rng.choice(["min", "max"])
        return ["m2", f, random_tree(rng, ty, depth - 1, pools), random_tree(rng, ty, depth - 1, pools)]
    if rng.chance(1, 12):
        other = "u32" if ty == "i32" else "i32"
        return ["as", ty, random_tree(rng, other, depth - 1, pools, module)]
    return ["bin", op, random_tree(rng, ty, depth - 1, pools, module), random_tree(rng, ty, depth - 1, pools, module)]


def nested_cases(pos, rng, n, pools, module=False):
    out = []
    while len(out) < n:
        ty = rng.choice(["i32", "u32"])
        e = random_tree(rng, ty, 3, pools, module)
        if module and e[0] != "bin":
            continue
        out.append(FC.Case(pos, ty, e))
    return out


def module_cases(pos, rng, pools, nnest):
    """cases for the evalConstantIntExpr users: concrete binary expressions"""
    out = []
    nonneg = {"i32": [v for v in pools["i32"] if v >= 0], "u32": pools["u32"]}
    for ty in ("i32", "u32"):
        pool = nonneg[ty]
        for op in ARITH + SHIFT:
            for a in pool:
                for b in (pools["u32"] if op in SHIFT else pool):
                    bb = FC.u32(b) if op in SHIFT else FC.typed(ty, b)
                    out.append(FC.Case(pos, ty, ["bin", op, FC.typed(ty, a), bb]))
        if pos in ("modconst",):
            for op in ("==", "<"):
                for a in pool[:4]:
                    out.append(FC.Case(pos, "bool", ["bin", op, FC.typed(ty, a), FC.typed(ty, pool[1])]))
    # operands that are NAMED typed module constants (evalConstantIdent), negative values included: the value of a
    # named i32 constant must enter the enclosing expression sign-extended
    if pos in ("modconst", "modconstT", "switch"):
        for ty, vals in (("i32", [-7, -1, 5, -2147483647, 2147483647, 0]), ("u32", [7, 0, 4294967295, 2147483648])):
            for op in ARITH + SHIFT + (["==", "<"] if pos == "modconst" else []):
                for a in vals:
                    for b in ([1, 2, 3] if op in SHIFT else ([2, 3] if ty == "u32" else [2, 3, -2])):
                        bb = FC.u32(b) if op in SHIFT else FC.typed(ty, b)
                        rt = "bool" if op in ("==", "<") else ty
                        out.append(FC.Case(pos, rt, ["bin", op, ["named", ty, FC.typed(ty, a)], bb]))
                        if op not in SHIFT:
                            out.append(FC.Case(pos, rt, ["bin", op, bb, ["named", ty, FC.typed(ty, a)]]))
    out += nested_cases(pos, rng, nnest, pools, module=True)
    return out


def abstract_module_cases(pos, rng, pools, nnest):
    out = []
    pa = [v for v in pools["ai"] if v >= 0]
    for op in ARITH + SHIFT:
        for a in pa:
            for b in pa:
                out.append(FC.Case(pos, "i32", ["bin", op, FC.ai(a), FC.ai(b)]))
    n = 0
    while n < nnest:
        def rnd(d):
            if d == 0 or rng.chance(3, 10):
                t = FC.ai(rng.choice(pa[:9]))
                return ["un", "-", t] if rng.chance(1, 5) else t
            return ["bin", rng.choice(ARITH + SHIFT), rnd(d - 1), rnd(d - 1)]
        e = rnd(3)
        if e[0] == "bin":
            out.append(FC.Case(pos, "i32", e))
            n += 1
    return out


def mixed_module_cases(pos, pools):
    out = []
    pa = [v for v in pools["ai"] if v >= 0][:10]
    for op in ARITH:
        for a in pa:
            for b in [v for v in pools["i32"] if v >= 0][:6]:
                out.append(FC.Case(pos, "i32", ["bin", op, FC.ai(a), FC.i32(b)]))
                out.append(FC.Case(pos, "i32", ["bin", op, FC.i32(b), FC.ai(a)]))
            for b in pools["u32"][:6]:
                out.append(FC.Case(pos, "u32", ["bin", op, FC.ai(a), FC.u32(b)]))
                out.append(FC.Case(pos, "u32", ["bin", op, FC.u32(b), FC.ai(a)]))
    return out


# ---------------------------------------------------------------- floats

F32_POOL = [0x00000000, 0x80000000, 0x3F800000, 0xBF800000, 0x40000000, 0x3F000000, 0x3EAAAAAB, 0x40490FDB, 0x7F7FFFFF, 0xFF7FFFFF,
            0x00800000, 0x00000001, 0x007FFFFF, 0x4B000000, 0x4B000001, 0x4B7FFFFF, 0x4F000000, 0xCF000000, 0x4F800000, 0x3F800001,
            0x3F7FFFFF, 0x33800000, 0x34000000, 0x41200000, 0xC0A00000, 0x3FC00000, 0x40200000, 0xC0200000, 0x5F000000, 0x3DCCCCCD]


def rand_f32(rng):
    k = rng.below(4)
    if k == 0:
        b = rng.below(M32)
    elif k == 1:
        b = (rng.below(2) << 31) | ((127 + rng.range(-3, 3)) << 23) | rng.below(1 << 23)
    elif k == 2:
        b = (rng.below(2) << 31) | ((127 + rng.range(-30, 30)) << 23) | (rng.below(1 << 23) & ~((1 << rng.below(23)) - 1))
    else:
        b = (rng.below(2) << 31) | (rng.below(3) << 23) | rng.below(1 << 23)
    if ((b >> 23) & 0xFF) == 0xFF:       # inf/nan cannot be written as literals
        b &= ~(1 << 30)
    return b


def f32_is_nan(b):
    return ((b >> 23) & 0xFF) == 0xFF and (b & 0x7FFFFF) != 0


def f64_is_nan(b):
    return ((b >> 52) & 0x7FF) == 0x7FF and (b & ((1 << 52) - 1)) != 0


def float_lit(kind, bits):
    """a float literal token is non-negative; a negative value is `-lit`"""
    if kind == "F32":
        if bits >> 31:
            return ["un", "-", FC.lit("F32", bits & 0x7FFFFFFF)]
        return FC.lit("F32", bits)
    if bits >> 63:
        return ["un", "-", FC.lit("AF", bits & ((1 << 63) - 1))]
    return FC.lit("AF", bits)


def f64_bits_of_f32(b):
    import struct
    v = struct.unpack("<f", struct.pack("<I", b))[0]
    return struct.unpack("<Q", struct.pack("<d", v))[0]


def float_cases(pos, rng, npool, nrand):
    out = []
    pool = F32_POOL[:npool]
    pairs = [(a, b) for a in pool for b in pool] + [(rand_f32(rng), rand_f32(rng)) for _ in range(nrand)]
    for op in ["+", "-", "*", "/", "%"] + CMP:
        rt = "bool" if op in CMP else "f32"
        for a, b in pairs:
            out.append(FC.Case(pos, rt, ["bin", op, float_lit("F32", a), float_lit("F32", b)], tag="f32" + op))
    for a in pool + [rand_f32(rng) for _ in range(nrand // 4)]:
        x = float_lit("F32", a)
        out.append(FC.Case(pos, "f32", ["un", "-", x]))
        for t in ("i32", "u32", "bool", "f32"):
            out.append(FC.Case(pos, t, ["as", t, x]))
        for f in ("abs", "sign", "floor", "ceil", "round", "trunc", "fract", "saturate", "sqrt"):
            out.append(FC.Case(pos, "f32", ["m1", f, x]))
        af = float_lit("AF", f64_bits_of_f32(a))
        for t in ("i32", "u32", "f32"):
            out.append(FC.Case(pos, t, ["as", t, af]))
        out.append(FC.Case(pos, "f32", ["bin", "*", af, float_lit("AF", f64_bits_of_f32(0x3DCCCCCD))]))
        out.append(FC.Case(pos, "f32", ["bin", "+", af, float_lit("F32", 0x3F800000)]))
    for a, b in pairs[:len(pool) * 6]:
        for f in ("min", "max", "step"):
            out.append(FC.Case(pos, "f32", ["m2", f, float_lit("F32", a), float_lit("F32", b)]))
    for a in pool[:8]:
        for b in pool[:8]:
            for c in pool[:4]:
                out.append(FC.Case(pos, "f32", ["m3", "clamp", float_lit("F32", a), float_lit("F32", b), float_lit("F32", c)]))
    for v in POOL_I[:12] + [H32 - 1, 16777217, -16777217, 33554433]:
        out.append(FC.Case(pos, "f32", ["as", "f32", FC.i32(v)]))
    for v in POOL_U[:8] + [M32 - 1, 16777217, 4294967167]:
        out.append(FC.Case(pos, "f32", ["as", "f32", FC.u32(v)]))
    for v in [0, 1, 16777217, (1 << 53) + 1, (1 << 62) + 1, 9007199791611905, H64 - 1]:
        out.append(FC.Case(pos, "f32", ["as", "f32", FC.ai(v)]))
        out.append(FC.Case(pos, "f32", ["bin", "+", FC.ai(v), float_lit("F32", 0)]))
    return out


# ---------------------------------------------------------------- run-time side

RT_TEMPLATES = [
    # (name, wgsl expression over a (lhs) and b (rhs) loaded from the buffer, expected IR node kind, enum type, enum constant)
    ("+", "{a} + {b}", "ExprBinary", "BinaryOperator", "BinaryAdd"), ("-", "{a} - {b}", "ExprBinary", "BinaryOperator", "BinarySubtract"),
    ("*", "{a} * {b}", "ExprBinary", "BinaryOperator", "BinaryMultiply"), ("/", "{a} / {b}", "ExprBinary", "BinaryOperator", "BinaryDivide"),
    ("%", "{a} % {b}", "ExprBinary", "BinaryOperator", "BinaryModulo"), ("&", "{a} & {b}", "ExprBinary", "BinaryOperator", "BinaryAnd"),
    ("|", "{a} | {b}", "ExprBinary", "BinaryOperator", "BinaryInclusiveOr"), ("^", "{a} ^ {b}", "ExprBinary", "BinaryOperator", "BinaryExclusiveOr"),
    ("<<", "{a} << {u}", "ExprBinary", "BinaryOperator", "BinaryShiftLeft"), (">>", "{a} >> {u}", "ExprBinary", "BinaryOperator", "BinaryShiftRight"),
    ("==", "{a} == {b}", "ExprBinary", "BinaryOperator", "BinaryEqual"), ("!=", "{a} != {b}", "ExprBinary", "BinaryOperator", "BinaryNotEqual"),
    ("<", "{a} < {b}", "ExprBinary", "BinaryOperator", "BinaryLess"), ("<=", "{a} <= {b}", "ExprBinary", "BinaryOperator", "BinaryLessEqual"),
    (">", "{a} > {b}", "ExprBinary", "BinaryOperator", "BinaryGreater"), (">=", "{a} >= {b}", "ExprBinary", "BinaryOperator", "BinaryGreaterEqual"),
    ("neg", "-{a}", "ExprUnary", "UnaryOperator", "UnaryNegate"), ("not", "~{a}", "ExprUnary", "UnaryOperator", "UnaryBitwiseNot"),
    ("abs", "abs({a})", "ExprMath", "MathFunction", "MathAbs"), ("min", "min({a}, {b})", "ExprMath", "MathFunction", "MathMin"),
    ("max", "max({a}, {b})", "ExprMath", "MathFunction", "MathMax"), ("clamp", "clamp({a}, {b}, {b})", "ExprMath", "MathFunction", "MathClamp"),
    ("countOneBits", "countOneBits({a})", "ExprMath", "MathFunction", "MathCountOneBits"),
    ("countLeadingZeros", "countLeadingZeros({a})", "ExprMath", "MathFunction", "MathCountLeadingZeros"),
    ("countTrailingZeros", "countTrailingZeros({a})", "ExprMath", "MathFunction", "MathCountTrailingZeros"),
    ("reverseBits", "reverseBits({a})", "ExprMath", "MathFunction", "MathReverseBits"),
    ("firstLeadingBit", "firstLeadingBit({a})", "ExprMath", "MathFunction", "MathFirstLeadingBit"),
    ("firstTrailingBit", "firstTrailingBit({a})", "ExprMath", "MathFunction", "MathFirstTrailingBit"),
]


def runtime_side(ctx, tools, enums):
    """the same operators with operands arriving at run time must stay un-folded IR nodes with the
       operator/function the WGSL text names (their run-time meaning is then Bits32's, by C01)"""
    jobs = []
    meta = {}
    for ty in ("i32", "u32"):
        lines = ["@group(0) @binding(0) var<storage, read_write> rt: array<%s, 8>;" % ty,
                 "@group(0) @binding(1) var<storage, read_write> ru: array<u32, 8>;",
                 "@group(0) @binding(2) var<storage, read_write> ob: array<u32, 64>;",
                 "@compute @workgroup_size(1)", "fn main() {", "  let a = rt[0];", "  let b = rt[1];", "  let u = ru[0];"]
        names = []
        for k, (name, tmpl, node, ety, econst) in enumerate(RT_TEMPLATES):
            if name == "neg" and ty == "u32":
                continue
            names.append((k, name, node, ety, econst))
            lines.append("  let r%d = %s;" % (k, tmpl.format(a="a", b="b", u="u")))
        lines.append("}")
        src = "\n".join(lines) + "\n"
        jid = "rt-" + ty
        jobs.append({"id": jid, "src": src, "want": ["ir"]})
        meta[jid] = (ty, names, src)
    res = nagarun.run_batch(tools["nagadrive"], "compile", jobs)
    checked = 0
    for jid, (ty, names, src) in meta.items():
        r = res.get(jid)
        if not r or "ir" not in r:
            ctx.violation("run-time side: the program with run-time operands (%s) no longer compiles: %s" % (ty, (r or {}).get("err")),
                          files={"runtime.wgsl": src}, key="runtime-side:compile:" + ty)
            continue
        fn = r["ir"]["EntryPoints"][0]["Function"]
        named = {name: h for h, name in fn["NamedExpressions"]}
        for k, name, node, ety, econst in names:
            h = named.get("r%d" % k)
            kind = fn["Expressions"][h]["Kind"] if h is not None else {"_t": "missing"}
            want_code = enums[ety][econst]
            got_code = kind.get("Op", kind.get("Fun"))
            ok = kind["_t"] == node and got_code == want_code
            if ok:
                # operands must be the run-time values, not literals
                ops = [kind.get(f) for f in ("Left", "Right", "Expr", "Arg", "Arg1", "Arg2") if kind.get(f) is not None]
                ok = all(fn["Expressions"][o]["Kind"]["_t"] != "Literal" for o in ops)
            checked += 1
            if not ok:
                ctx.violation("run-time side: `%s` on %s operands loaded from a buffer lowers to %s(op/fun %s), expected %s(%s=%s): "
                              "the run-time path no longer computes the operator the source names"
                              % (name, ty, kind["_t"], got_code, node, econst, want_code),
                              files={"runtime.wgsl": src}, key="runtime-side:%s:%s" % (name, ty))
    return checked


def ir_enums(tools):
    res = gen.extract(tools, [{"kind": "consts", "file": "ir/expression.go"}])
    out = collections.defaultdict(dict)
    for n, v, t in res[0]:
        if t and v.lstrip("-").isdigit():
            out[t][n] = int(v)
    return out


# ---------------------------------------------------------------- vectors and dot

def vector_cases(ctx, tools, exe, rng, n):
    """tryFoldVectorBinaryOp / tryFoldVectorUnaryOp are component-wise, all or nothing; tryFoldDot"""
    progs = []
    reqs = []
    meta = []
    for i in range(n):
        ty = rng.choice(["i32", "u32", "f32"])
        size = rng.range(2, 4)
        # operand shapes: vector op vector, scalar op vector (broadcast of the LEFT operand), vector op scalar
        shape = ["vv", "sv", "vs"][i % 3]
        if ty == "f32":
            op = rng.choice(["+", "-", "*", "/"])
            mk = lambda v: float_lit("F32", v)
            pool = F32_POOL[:16]
        else:
            op = rng.choice(ARITH + SHIFT)
            mk = (lambda v: FC.typed(ty, v))
            pool = POOL_I if ty == "i32" else POOL_U
        if op in SHIFT and shape == "sv":
            shape = "vs"
        na = 1 if shape == "sv" else size
        nb = 1 if shape == "vs" else size
        a = [rng.choice(pool) for _ in range(na)]
        b = [rng.choice(POOL_U[:9]) if op in SHIFT else rng.choice(pool) for _ in range(nb)]
        la = [mk(v) for v in a]
        lb = [FC.u32(v) if op in SHIFT else mk(v) for v in b]
        for j in range(size):
            reqs.append({"fn": "fold_expr", "e": ["bin", op, la[j if na > 1 else 0], lb[j if nb > 1 else 0]]})
        vt = "vec%d<%s>" % (size, ty)
        vu = "vec%d<u32>" % size
        ta = "%s(%s)" % (vt, ", ".join(FC.render(x) for x in la)) if na > 1 else "(%s)" % FC.render(la[0])
        tb = ("%s(%s)" % (vu if op in SHIFT else vt, ", ".join(FC.render(y) for y in lb))) if nb > 1 else "(%s)" % FC.render(lb[0])
        src = "var<private> pv: %s;\n@compute @workgroup_size(1)\nfn main() {\n  pv = %s %s %s;\n}\n" % (vt, ta, op, tb)
        progs.append({"id": i, "src": src, "want": ["ir"]})
        meta.append((ty, size, op + ":" + shape, src))
    res = vcheck.run_model(exe, reqs)
    out = nagarun.parallel_batches(tools["nagadrive"], "compile", progs, per_job_timeout=20.0, chunk=32)
    k = 0
    mism = 0
    for i, (ty, size, op, src) in enumerate(meta):
        comps = [r.get("r") for r in res[k:k + size]]
        k += size
        want = None if any(c is None for c in comps) else comps
        r = out.get(i)
        got = "error"
        if r and "ir" in r:
            fn = r["ir"]["EntryPoints"][0]["Function"]
            st = [s["Kind"] for s in fn["Body"] if s["Kind"]["_t"] == "StmtStore"]
            got = None
            if st:
                kk = fn["Expressions"][st[0]["Value"]]["Kind"]
                if kk["_t"] == "ExprCompose":
                    got = [FC.expr_obs(fn, h) for h in kk["Components"]]
                    if not all(isinstance(g, list) for g in got):
                        got = None
        if got != want:
            mism += 1
            ctx.violation("vector fold: naga folds `%s` component-wise to %s, the model (component-wise scalar fold, all or nothing) predicts %s"
                          % (src.split("\n")[3].strip(), got, want), files={"case.wgsl": src}, key="model-mismatch:vector:%s:%s" % (op, ty),
                          broken="correspondence FoldModel.fold_vec_binary vs tryFoldVectorBinaryOp")
    return len(meta), mism


def dot_cases(ctx, tools, exe, rng, n):
    cases = []
    # the lead's case: every product is -0.0, the sum must be -0.0; the folder's accumulator starts at +0.0
    cases.append(("f32", [0x00000000, 0x00000000, 0x00000000], [0xBF800000, 0xC0400000, 0xC0000000]))
    cases.append(("f32", [0x3F800000, 0x40000000], [0x40400000, 0x40800000]))
    for i in range(n):
        if rng.chance(1, 2):
            size = rng.range(2, 4)
            cases.append(("i32", [rng.choice(POOL_I) for _ in range(size)], [rng.choice(POOL_I) for _ in range(size)]))
        else:
            size = rng.range(2, 4)
            cases.append(("f32", [rng.choice(F32_POOL[:16]) for _ in range(size)], [rng.choice(F32_POOL[:16]) for _ in range(size)]))
    reqs, progs = [], []
    for i, (ty, xs, ys) in enumerate(cases):
        if ty == "i32":
            lx = [["lit", "I32", v % M32] for v in xs]
            ly = [["lit", "I32", v % M32] for v in ys]
            tx = [FC.render(FC.i32(v)) for v in xs]
            tyy = [FC.render(FC.i32(v)) for v in ys]
        else:
            lx = [["lit", "F32", v] for v in xs]
            ly = [["lit", "F32", v] for v in ys]
            tx = [FC.render(float_lit("F32", v)) for v in xs]
            tyy = [FC.render(float_lit("F32", v)) for v in ys]
        reqs.append({"fn": "dot", "xs": lx, "ys": ly})
        vt = "vec%d<%s>" % (len(xs), ty)
        src = ("var<private> p: %s;\n@compute @workgroup_size(1)\nfn main() {\n  p = dot(%s(%s), %s(%s));\n}\n"
               % (ty, vt, ", ".join(tx), vt, ", ".join(tyy)))
        progs.append({"id": i, "src": src, "want": ["ir"]})
    res = vcheck.run_model(exe, reqs)
    out = nagarun.parallel_batches(tools["nagadrive"], "compile", progs, per_job_timeout=20.0, chunk=32)
    mism = 0
    classes = collections.Counter()
    examples = {}
    for i, (ty, xs, ys) in enumerate(cases):
        want = res[i].get("r")
        r = out.get(i)
        got = None
        if r and "ir" in r:
            fn = r["ir"]["EntryPoints"][0]["Function"]
            st = [s["Kind"] for s in fn["Body"] if s["Kind"]["_t"] == "StmtStore"]
            if st:
                o = FC.expr_obs(fn, st[0]["Value"])
                got = o if isinstance(o, list) else None
        if not same_literal(got, want):
            mism += 1
            ctx.violation("dot fold: naga gives %s, the model of tryFoldDot predicts %s for %s" % (got, want, progs[i]["src"].split("\n")[3].strip()),
                          files={"case.wgsl": progs[i]["src"]}, key="model-mismatch:dot:%s" % ty,
                          broken="correspondence FoldFloat.fold_dot_* vs tryFoldDot")
            continue
        # property: the run-time dot is the sum of the products WITHOUT an extra +0.0 term
        if ty == "f32" and want is not None:
            import struct
            fl = lambda b: struct.unpack("<f", struct.pack("<I", b))[0]
            import math
            prods = [fl(a) * fl(b) for a, b in zip(xs, ys)]
            if all(p == 0.0 and math.copysign(1.0, p) < 0 for p in prods) and want[2] == 0:
                classes["fn:dot:F32:value"] += 1
                examples.setdefault("fn:dot:F32:value", progs[i]["src"])
    return len(cases), mism, classes, examples


def module_vector_cases(ctx, tools, exe, rng, npairs):
    """`const v = vec2<T>(a, b) op vec2<T>(c, d);` at module scope: lowerConstantVectorBinaryExpr ->
       evalScalarArithmetic / evalScalarComparison on the raw ScalarValue bits"""
    progs, meta, mreq, sreq = [], [], [], []
    pools = {"i32": [0, 1, -1, 2, -2, 3, 7, -6, 6, H32 - 1, -H32], "u32": [0, 1, 2, 3, 7, M32 - 1, H32]}
    k = 0
    for ty in ("i32", "u32"):
        for op in ("+", "-", "*", "/", "%", "==", "!=", "<", ">="):
            for _ in range(npairs):
                a = [rng.choice(pools[ty]) for _ in range(2)]
                b = [rng.choice(pools[ty]) for _ in range(2)]
                for x, y in zip(a, b):
                    mreq.append({"fn": "mod_vec_component", "e": ["bin", op, ["lit", "I32" if ty == "i32" else "U32", x % M32],
                                                                  ["lit", "I32" if ty == "i32" else "U32", y % M32]]})
                    sreq.append({"fn": "fold_expr", "e": ["bin", op, FC.typed(ty, x), FC.typed(ty, y)]})
                vt = "vec2<%s>" % ty
                src = ("const v = %s(%s) %s %s(%s);\n@compute @workgroup_size(1)\nfn main() { }\n"
                       % (vt, ", ".join(FC.render(FC.typed(ty, x)) for x in a), op, vt, ", ".join(FC.render(FC.typed(ty, y)) for y in b)))
                progs.append({"id": k, "src": src, "want": ["ir"]})
                meta.append((ty, op, src))
                k += 1
    mres = vcheck.run_model(exe, mreq)
    sres = vcheck.run_model(exe, sreq)
    out = nagarun.parallel_batches(tools["nagadrive"], "compile", progs, per_job_timeout=20.0, chunk=32)
    classes = collections.Counter()
    examples = {}
    mism = 0
    for i, (ty, op, src) in enumerate(meta):
        want = [mres[2 * i].get("r"), mres[2 * i + 1].get("r")]
        spec = [sres[2 * i].get("s"), sres[2 * i + 1].get("s")]
        r = out.get(i)
        got = None
        if r and "ir" in r:
            ir = r["ir"]
            cs = [c for c in ir["Constants"] if c.get("Name") == "v"]
            if cs:
                ge = ir["GlobalExpressions"][cs[0]["Init"]]["Kind"]
                if ge["_t"] == "ExprCompose":
                    got = [FC.norm_literal(ir["GlobalExpressions"][h]["Kind"]["Value"]) for h in ge["Components"]]
        elif r and "err" in r:
            got = "error"
        if got != want:
            mism += 1
            ctx.violation("module-scope vector constant: naga evaluates `%s` to %s, the model of evalScalarArithmetic/evalScalarComparison predicts %s"
                          % (src.split("\n")[0], got, want), files={"case.wgsl": src}, key="model-mismatch:modvec:%s:%s" % (op, ty),
                          broken="correspondence ModEvalModel.mod_vec_component vs lowerConstantVectorBinaryExpr")
            continue
        for w, sp in zip(want, spec):
            if sp in (None, "ill") or w is None:
                continue
            if FC.is_err(sp):
                key = "modvec:%s:error-not-reported" % sp[1]
            elif w != sp:
                key = "modvec:%s:value" % op
            else:
                continue
            classes[key] += 1
            examples.setdefault(key, (src, w, sp))
    return len(meta), mism, classes, examples


def same_literal(a, b):
    if a is None or b is None:
        return a is None and b is None
    if isinstance(a, dict) or isinstance(b, dict):
        return False
    if a[1] != b[1]:
        return False
    if a[1] in ("F32", "F16") and f32_is_nan(a[2]) and f32_is_nan(b[2]):
        return True
    if a[1] == "AF" and f64_is_nan(a[2]) and f64_is_nan(b[2]):
        return True
    return a[2] == b[2]


# ---------------------------------------------------------------- the refuted theorems' witnesses

WITNESSES = [
    # (theorem, position, type, tree)  -- replayed on naga on every run; their class must be a listed finding
    ("c06_shift_amount_refuted", "store", "u32", ["bin", "<<", FC.u32(1), FC.u32(32)]),
    ("c06_shift_right_amount_refuted", "store", "i32", ["bin", ">>", FC.i32(-8), FC.u32(33)]),
    ("c06_shift_left_overflow_refuted", "store", "i32", ["bin", "<<", FC.i32(1), FC.u32(31)]),
    ("c06_division_overflow_refuted", "store", "i32", ["bin", "/", FC.i32(-H32), FC.i32(-1)]),
    ("c06_clamp_refuted", "store", "i32", ["m3", "clamp", FC.i32(0), FC.i32(5), FC.i32(3)]),
    ("c06_abstract_overflow_refuted", "store", "i32", ["bin", "+", FC.ai(H64 - 1), FC.ai(1)]),
    ("c06_concretize_refuted", "store", "i32", FC.ai(H32)),
    ("c06_concretize_refuted", "store", "u32", FC.ai(-1)),
    ("c06_abstract_builtin_refuted", "store", "i32", ["m2", "min", FC.ai(0), FC.ai(H32)]),
    ("c06_abstract_builtin_refuted", "store", "i32", ["m2", "max", FC.ai(0), FC.ai(-H32 - 1)]),
    ("c06_abstract_builtin_refuted", "store", "i32", ["m1", "sign", FC.ai(H32)]),
    ("c06_abstract_shift_type_refuted", "let", "i32", ["bin", "<<", FC.ai(1), FC.u32(2)]),
    ("c06_module_const_refuted", "modconst", "u32", ["bin", "/", ["bin", "+", FC.u32(M32 - 1), FC.u32(1)], FC.u32(2)]),
    ("c06_module_const_i32_refuted", "modconst", "i32", ["bin", "/", ["bin", "+", FC.i32(H32 - 1), FC.i32(1)], FC.i32(2)]),
    ("c06_module_bitnot_refuted", "modconst", "u32", ["bin", ">>", ["un", "~", FC.u32(0)], FC.u32(1)]),
    ("c06_module_mixed_type_refuted", "modconst", "u32", ["bin", "+", FC.u32(1), FC.ai(2)]),
    ("c06_module_float_fallback_refuted", "modconst", "i32", ["bin", "/", FC.i32(7), ["bin", "/", FC.i32(1), FC.i32(2)]]),
    ("c06_module_float_fallback_refuted", "modconstT", "i32", ["bin", "/", FC.i32(7), ["bin", "/", FC.i32(1), FC.i32(2)]]),
    ("c06_switch_selector_refuted", "switch", "u32", ["bin", "/", ["bin", "+", FC.u32(M32 - 1), FC.u32(1)], FC.u32(2)]),
    ("c06_array_size_refuted", "arraysize", "i32", ["bin", "<<", FC.u32(1), FC.u32(32)]),
    ("c06_array_size_refuted", "arraysize", "i32", ["m2", "min", FC.ai(2), FC.ai(3)]),
    ("c06_array_size_refuted", "arraysize", "i32", ["bin", "/", FC.ai(4), FC.ai(0)]),
    ("c06_const_assert_refuted", "assert", "bool", ["bin", "==", FC.u32(0), ["bin", "+", FC.u32(M32 - 1), FC.u32(1)]]),
    ("c06_workgroup_size_refuted", "wgsize", "u32", FC.u32(8)),
    ("c06_workgroup_size_refuted", "wgsize", "u32", ["bin", "<<", FC.ai(1), FC.ai(3)]),
    ("c06_workgroup_size_refuted", "wgsize", "u32", ["bin", "*", FC.u32(2), FC.u32(4)]),
]


def run(ctx):
    import time
    T = [("start", time.time())]
    tick = lambda name: T.append((name, time.time()))
    tools = vcheck.build_harness(["nagadrive", "goextract"])
    tick("harness")
    model_files = ["Fold/GoArith.v", "Fold/FoldModel.v", "Fold/ModEvalModel.v", "Fold/FoldFloat.v", "Fold/WgslConst.v",
                   "Fold/FoldArith.v", "Fold/FoldProofs.v", "Fold/FoldBits.v", "Fold/FoldTree.v", "Fold/FoldAbstract.v",
                   "Fold/FoldErrors.v", "Fold/FoldRefuted.v", "Fold/ModEvalProofs.v", "Fold/FoldFloatProofs.v", "Fold/FoldGen.v", "Base/Bits32.v"]
    ok, failed, log = vcheck.proof_step(ctx, "Props/C06.v", model_files,
                                        gen_writer=lambda: gen.regenerate(tools, ["foldtables"]),
                                        extra_obligation_files=["Fold/FoldGen.v", "Fold/FoldFloat.v", "Fold/FoldFloatProofs.v", "Fold/FoldJson.v"])
    ctx.cov["trusted_base"] += [
        "translator: harness/cmd/goextract funcsrc (go/ast + go/printer) + lib/c06gen.py -> coq/Gen/FoldTables.v (switch tables and statement lists of 14 leaf functions of lower.go)",
        "axioms of Coq's Reals reached through Flocq, under the float theorems only (c06_fold_f32_arith_is_runtime, c06_f32_add_via_f64: ClassicalDedekindReals.sig_forall_dec, sig_not_dec, FunctionalExtensionality.functional_extensionality_dep, Classical_Prop.classic); every integer/bool/module-scope theorem of Props/C06.v is closed under the global context",
        "extraction: ExtrOcamlBasic only; Z/positive/string kept as Coq datatypes; generic driver ocaml/common/driver.ml; OCaml 4.13.1",
        "correspondence harness: harness/cmd/nagadrive compile (reflection dump with typed literals), lib/foldcorr.py (WGSL text of a tree, IR reader)",
        "my transcription of WGSL const-expression rules (Fold/WgslConst.v): AbstractInt = 64-bit, overflow of abstract arithmetic is an error, concrete integer arithmetic wraps, / % by zero and MIN/-1 are errors, shift amount >= width and shifted-out bits are errors, clamp low>high is an error, abstract->concrete needs representability; builtins on abstract arguments whose overload choice is unclear are not claimed (Ill)",
        "Go semantics (Fold/GoArith.v): wrap-around, truncating / %, wide shifts, uint(x) 64-bit; float64->int32/uint32/int64 of out-of-range values as gc/amd64 does it (implementation-dependent per the Go spec)",
        "modelled: foldBinaryLiterals, tryFoldASTBinary, concretizeLiteralPair/To, tryFoldBinaryOp, tryFoldUnaryOp, lowerNegatedLiteral, tryFoldAs, tryFoldScalarMath integer builtins + exactly-rounded float builtins, foldClamp/Min/Max/Abs/Sign, bit folds, concretizeMathArgsWithHint, concretizeBinaryOperands, concretizeShiftRight, concretizeAbstractInt, concretizeExpressionToScalar (literals), lowerSelectCall+constFoldSelect (scalars), tryFoldDot, roundToF16, evalConstantIntExpr, lowerConstantBinaryExpr (integer path), lowerConstantUnaryExpr(~), lowerAbstractConstant (binary), lowerSwitchCaseValue, array sizes, tryEvalConstantBool, evalConstU32Expr, evalScalarArithmetic (integer branch). NOT modelled: transcendental/accuracy-specified float builtins, tryFoldCross, swizzle/compose folding, matrix constants, i64/u64/f64 literals, evalConstantFloatExpr, ir/process_overrides.go (C14)",
    ]
    ctx.assumptions = [
        "theorems are about the models; the models are tied to naga by the regenerated tables (R) and by running model and naga on the same generated trees (C) -- boundary pools squared per operator and type plus seeded random operands, not all operands",
        "float theorems: f32 + - * through float64 = the f32 operation is proved for all finite operands, roundToF16 refuted by witnesses; f32 / %, comparisons, conversions, float builtins, abstract-float and f16 arithmetic are tied by correspondence only (model vs naga), not related to a WGSL specification by a theorem",
        "literal tokens are written in decimal with the shortest exact text; hexadecimal literals and the lexer are C19's",
    ]
    broken = None
    if not ok:
        gen_failed = [f for f in failed if "FoldGen" in f]
        broken = ("the switch tables regenerated from lower.go differ from the text the models were written from (Fold/FoldGen.v no longer checks)"
                  if gen_failed else "Coq development no longer checks: %s" % (failed or log[-600:]))
    tick("coq")
    exe = ocamlbuild.build("fold")
    tick("extract")
    if getattr(ctx, "replay", None):
        return replay(ctx, tools, exe)
    enums = ir_enums(tools)
    rng = ctx.rng.fork("c06")
    q = not ctx.thorough
    pools = {"i32": sub(POOL_I, 11 if q else len(POOL_I), rng), "u32": sub(POOL_U, 10 if q else len(POOL_U), rng),
             "ai": sub(POOL_A, 11 if q else len(POOL_A), rng)}
    full = {"i32": POOL_I, "u32": POOL_U, "ai": POOL_A}
    small = {k: v[:ctx.scale(5, 14)] for k, v in pools.items()}
    cases = []
    # function scope: the boundary pool squared at the store position, reduced pools at the others
    cases += binary_cases("store", ("i32", "u32"), full if ctx.thorough else {"i32": sub(POOL_I, 13, rng), "u32": sub(POOL_U, 11, rng)}, rng, ctx.scale(20, 400))
    for pos in ("let", "fnconst", "sub"):
        cases += binary_cases(pos, ("i32", "u32"), small, rng, ctx.scale(4, 60))
    for pos in ("store", "let") + (("fnconst", "sub") if ctx.thorough else ()):
        cases += unary_cases(pos, pools)
        cases += math_cases(pos, pools, ctx.scale(5, 9))
    cases += abstract_cases("store", pools if ctx.thorough else {k: v[:7] for k, v in pools.items()})
    cases += abstract_cases("let", {k: v[:ctx.scale(4, 21)] for k, v in pools.items()})
    for pos in ("store", "let", "fnconst", "sub"):
        cases += nested_cases(pos, rng, ctx.scale(100, 3000), pools)
    cases += float_cases("store", rng, ctx.scale(9, 30), ctx.scale(24, 1500))
    cases += float_cases("let", rng, ctx.scale(3, 14), ctx.scale(4, 200))
    f16_inputs = [0x3F801000, 0x35802000, 0x3F800000, 0x477FE000, 0x477FF000, 0x33800000, 0x38800000, 0x387FC000, 0x00000001, 0x3F803000] + \
                 [rand_f32(rng) for _ in range(ctx.scale(60, 3000))]
    for b in f16_inputs:
        cases.append(FC.Case("store", "f16", ["as", "f16", float_lit("F32", b)]))
    # module scope
    mp = {"i32": pools["i32"], "u32": pools["u32"], "ai": pools["ai"]}
    msmall = {k: v[:ctx.scale(6, 20)] for k, v in mp.items()}
    for pos in ("modconst", "modconstT", "switch", "arraysize"):
        cases += module_cases(pos, rng, mp if (pos == "modconst" and ctx.thorough) else msmall, ctx.scale(80, 1500))
    cases += abstract_module_cases("modabs", rng, msmall, ctx.scale(60, 1000))
    cases += abstract_module_cases("arraysize", rng, {k: v[:ctx.scale(5, 21)] for k, v in mp.items()}, ctx.scale(30, 400))
    cases += mixed_module_cases("modconst", msmall) + mixed_module_cases("modconstT", {k: v[:5] for k, v in mp.items()})
    for a in pools["u32"][:8] + pools["i32"][:4]:
        ty = "u32" if a in pools["u32"][:8] else "i32"
        if a >= 0:
            cases.append(FC.Case("modnot", ty, ["un", "~", FC.typed(ty, a)]))
            cases.append(FC.Case("modas", "u32" if ty == "i32" else "i32", ["as", "u32" if ty == "i32" else "i32", ["bin", "+", FC.typed(ty, a), FC.typed(ty, 1)]]))
    # one program per case: workgroup_size and const_assert
    wg = module_cases("wgsize", rng, {k: v[:5] for k, v in mp.items()}, ctx.scale(20, 200))
    wg += abstract_module_cases("wgsize", rng, {k: v[:6] for k, v in mp.items()}, ctx.scale(20, 200))
    wg = rng.shuffle(wg)[:ctx.scale(110, 3000)]
    wg += [FC.Case("wgsize", "u32", FC.ai(v)) for v in (1, 8, 64, 256)] + [FC.Case("wgsize", "u32", FC.u32(v)) for v in (1, 8)] + \
          [FC.Case("wgsize", "u32", FC.i32(8)), FC.Case("wgsize", "u32", ["bin", "*", FC.ai(4), FC.ai(4)]),
           FC.Case("wgsize", "u32", ["bin", "-", FC.ai(0), FC.ai(0)])]
    cases += wg
    asserts = []
    for c in module_cases("assert", rng, {k: v[:4] for k, v in mp.items()}, ctx.scale(30, 300)):
        for rel, v in (("==", 0), ("!=", 0), ("<", 1), (">=", 1)):
            asserts.append(FC.Case("assert", "bool", ["bin", rel, FC.typed(c.ty, v), c.e]))    # `const_assert (e) == v` does not parse: literal first
    cases += rng.shuffle(asserts)[:ctx.scale(150, 4000)]
    witness_cases = [FC.Case(pos, ty, e, tag="") for _, pos, ty, e in WITNESSES]
    cases += witness_cases

    tick("generate")
    FC.run_cases(tools, exe, cases)
    tick("run_cases")

    # ---- C tie: model == naga on every case
    mism = [c for c in cases if not matches(c)]
    seen_keys = set()
    for c in mism:
        key = "model-mismatch:%s:%s:%s" % (c.pos, FC.top_op(c.e), FC.first_leaf_kind(c.e))
        if key in seen_keys:
            continue
        seen_keys.add(key)
        what = ("naga and the Coq model disagree at position '%s' on `%s`: naga %s, model %s%s; WGSL specifies %s, run-time value %s"
                % (c.pos, FC.render_top(c.e), json.dumps(c.obs), json.dumps(c.model), (" " + json.dumps(c.extra)) if c.extra else "",
                   json.dumps(c.spec), json.dumps(c.rt)))
        ctx.violation(what, files={"case.wgsl": c.src or "", "case.json": json.dumps({"pos": c.pos, "ty": c.ty, "e": c.e})}, key=key,
                      broken="correspondence of Fold/FoldModel.v / ModEvalModel.v / FoldFloat.v with wgsl/internal/lower (position %s)" % c.pos)
    # ---- property: model (== naga) vs WGSL, by class
    classes = collections.Counter()
    examples = {}
    rtrel = collections.defaultdict(collections.Counter)
    for c in cases:
        if not matches(c):
            continue
        k = FC.spec_class(c)
        if k:
            classes[k] += 1
            rel = FC.rt_relation(c)
            if rel:
                rtrel[k][rel] += 1
            # prefer an example whose substituted value differs from the run-time value, then the smallest text
            old = examples.get(k)
            if old is None or (rel == "differs" and FC.rt_relation(old) != "differs") or \
                    (FC.rt_relation(old) == rel and len(FC.render_top(c.e)) < len(FC.render_top(old.e))):
                examples[k] = c
    # f32 + - * and comparisons computed through float64 must be the direct f32 operation (run-time value)
    fcases = [c for c in cases if c.tag.startswith("f32") and c.tag[3:] in ("+", "-", "*") + tuple(CMP) and isinstance(c.model, list)]
    reqs = []
    for c in fcases:
        a, b = lit_bits(c.e[2]), lit_bits(c.e[3])
        reqs.append({"fn": "f32_rt", "op": c.tag[3:], "a": a, "b": b})
    frt = vcheck.run_model(exe, reqs) if reqs else []
    f32_checked = 0
    for c, r in zip(fcases, frt):
        f32_checked += 1
        if not same_literal(c.model, r.get("r")):
            k = "fn:f32%s:value" % c.tag[3:]
            classes[k] += 1
            examples.setdefault(k, c)
    # float clamp with low > high: WGSL allows min(max(e,low),high) or the median of the three at run time (and makes it an
    # error in a const-expression); anything else is a value the run-time evaluation can never produce
    import struct
    f32v = lambda b: struct.unpack("<f", struct.pack("<I", b))[0]
    for c in cases:
        if c.e[0] == "m3" and c.e[1] == "clamp" and isinstance(c.model, list) and c.model[1] == "F32" and matches(c):
            try:
                ev, lo, hi = (f32v(lit_bits(x)) for x in c.e[2:5])
            except Exception:
                continue
            if lo > hi:
                got = f32v(c.model[2])
                allowed = {min(max(ev, lo), hi), sorted([ev, lo, hi])[1]}
                k = "fn:clamp:F32:low-greater-than-high:" + ("error-not-reported" if got in allowed else "value-neither-minmax-nor-median")
                classes[k] += 1
                if k not in examples or len(FC.render_top(c.e)) < len(FC.render_top(examples[k].e)):
                    examples[k] = c
    # roundToF16: what it returns must at least be a value representable in f16 (WGSL lets a conversion pick either
    # neighbour, so rounding ties up instead of to even is not held against naga; returning a non-f16 value is)
    f16_cases = [c for c in cases if c.ty == "f16" and isinstance(c.model, list) and c.model[1] == "F16" and matches(c)]
    f16r = vcheck.run_model(exe, [{"fn": "round_to_f16", "bits": c.model[2]} for c in f16_cases]) if f16_cases else []
    f16_bad = []
    for c, r in zip(f16_cases, f16r):
        if r["ieee"] != c.model[2] and not f32_is_nan(c.model[2]):
            f16_bad.append(c)
    if f16_bad:
        classes["fn:f16:value-not-representable-in-f16"] += len(f16_bad)
        examples["fn:f16:value-not-representable-in-f16"] = f16_bad[0]
    nvec, vmism = vector_cases(ctx, tools, exe, rng, ctx.scale(120, 1500))
    ndot, dmism, dclasses, dexamples = dot_cases(ctx, tools, exe, rng, ctx.scale(40, 600))
    classes.update(dclasses)
    nmv, mvmism, mvclasses, mvexamples = module_vector_cases(ctx, tools, exe, rng, ctx.scale(6, 60))
    classes.update(mvclasses)
    nrt = runtime_side(ctx, tools, enums)
    # the value of a constant does not depend on the history of its uses (metamorphic family, lib/c06hist.py)
    import c06hist
    ctx.cov["const_use_history"] = c06hist.run(ctx, tools, ocamlbuild.build("irrun"), vcheck.run_model)
    tick("aux")
    ctx.cov["timing_s"] = {b[0]: round(b[1] - a[1], 1) for a, b in zip(T, T[1:])}

    for k in sorted(classes):
        c = examples.get(k)
        if c is not None:
            rr = rtrel.get(k)
            what = ("naga violates C06 (class %s, %d generated cases%s): `%s` at position '%s' -> naga %s; WGSL specifies %s; run-time value %s"
                    % (k, classes[k], (", substituted value differs from the run-time value in %d, equals it in %d" % (rr["differs"], rr["same"])) if rr else "",
                       FC.render_top(c.e), c.pos, json.dumps(c.obs), json.dumps(c.spec), json.dumps(c.rt)))
            files = {"case.wgsl": c.src or "", "case.json": json.dumps({"pos": c.pos, "ty": c.ty, "e": c.e})}
        elif k in mvexamples:
            src, w, sp = mvexamples[k]
            what = ("naga violates C06 (class %s, %d components): module-scope vector constant `%s` has a component %s; WGSL specifies %s"
                    % (k, classes[k], src.split("\n")[0], json.dumps(w), json.dumps(sp)))
            files = {"case.wgsl": src}
        elif k in dexamples:
            what = "naga violates C06 (class %s): dot of products that are all -0.0 folds to +0.0, the run-time sum of the products is -0.0" % k
            files = {"case.wgsl": dexamples[k]}
        else:
            continue
        ctx.violation(what, files=files, key=k)

    # ---- the witnesses of the refuted theorems must reproduce on naga
    for (thm, pos, ty, e), c in zip(WITNESSES, witness_cases):
        if matches(c) and FC.spec_class(c) is None:
            ctx.violation("the witness of %s no longer shows a disagreement on naga (`%s` at '%s': naga %s, WGSL %s): theorem and implementation drifted apart"
                          % (thm, FC.render_top(e), pos, json.dumps(c.obs), json.dumps(c.spec)), found_input=False,
                          key="witness-stale:" + thm, broken=thm)

    hist = collections.Counter(c.pos for c in cases)
    distinct = len({c.key() for c in cases})
    ctx.cov["correspondence"] = {"cases": len(cases), "distinct": distinct, "by_position": dict(hist), "model_mismatches": len(mism),
                                 "vector_cases": nvec, "module_vector_constants": nmv, "dot_cases": ndot, "f32_via_f64_checked": f32_checked, "runtime_side_nodes": nrt,
                                 "f16_conversions": len(f16_cases)}
    ctx.cov["finding_classes"] = {k: classes[k] for k in sorted(classes)}
    ctx.cov["evaluations"] = len(cases) + nvec + ndot + nrt + nmv
    ctx.cov["distinct_nontrivial"] = distinct
    ctx.cov["traces_validated_against_impl"] = len(cases) - len(mism) + nvec - vmism + ndot - dmism + nmv - mvmism
    ctx.cov["rule"] = ("expression trees over literals (i32,u32,abstract-int,bool,f32,abstract-float): boundary pool squared per operator and type "
                       "+ seeded random operands + random nested trees, each written at the positions store / let / function const / folded "
                       "sub-expression / module const (typed, untyped, abstract) / switch selector / array size / workgroup_size / const_assert; "
                       "distinct = distinct (position, type, tree)")
    for c in cases:
        if FC.spec_class(c) is None and isinstance(c.model, list) and c.e[0] != "lit" and len(ctx.cov["samples"]) < 5:
            ctx.sample({"pos": c.pos, "wgsl": FC.render_top(c.e), "naga": c.obs, "model": c.model, "wgsl_spec": c.spec})
    if broken:
        if ctx.violations:
            ctx.cov["broken_tie"] = broken
        else:
            ctx.violation(broken + "\n(model and naga still agree on every generated expression: no failing input found)",
                          found_input=False, broken=broken, files={"make.log": log[-4000:]})


def replay(ctx, tools, exe):
    """bin/check C06 --replay <dir>: re-run the single case stored in <dir>/case.json"""
    import os
    pj = os.path.join(ctx.replay, "case.json")
    if not os.path.exists(pj):
        print("replay: %s holds no case.json (it is not a single-expression case); re-run the tier instead" % ctx.replay)
        return
    d = json.load(open(pj))
    if not isinstance(d, dict) or "e" not in d:
        print("replay: case.json is not an expression case")
        return
    c = FC.Case(d["pos"], d["ty"], d["e"])
    FC.run_cases(tools, exe, [c])
    k = FC.spec_class(c)
    print("replay: `%s` at '%s': naga %s | model %s | WGSL %s | run time %s | class %s"
          % (FC.render_top(c.e), c.pos, json.dumps(c.obs), json.dumps(c.model), json.dumps(c.spec), json.dumps(c.rt), k))
    ctx.cov["evaluations"] = 1
    ctx.cov["distinct_nontrivial"] = 1
    ctx.cov["rule"] = "replay of one stored case"
    ctx.sample({"pos": c.pos, "wgsl": FC.render_top(c.e), "naga": c.obs, "model": c.model, "wgsl_spec": c.spec})
    if not matches(c):
        ctx.violation("replayed case: naga and the model disagree on `%s` at '%s': naga %s, model %s" % (FC.render_top(c.e), c.pos, json.dumps(c.obs), json.dumps(c.model)),
                      files={"case.wgsl": c.src or "", "case.json": json.dumps(d)}, key="model-mismatch:%s:%s:%s" % (c.pos, FC.top_op(c.e), FC.first_leaf_kind(c.e)))
    elif k:
        ctx.violation("replayed case violates C06 (class %s): `%s` at '%s' -> naga %s; WGSL specifies %s; run-time value %s"
                      % (k, FC.render_top(c.e), c.pos, json.dumps(c.obs), json.dumps(c.spec), json.dumps(c.rt)),
                      files={"case.wgsl": c.src or "", "case.json": json.dumps(d)}, key=k)


def matches(c):
    if isinstance(c.obs, list) and isinstance(c.model, list) and c.obs[:1] == ["lit"] and c.model[:1] == ["lit"] \
            and c.obs[1] == c.model[1] and c.obs[1] in ("F32", "F16", "AF"):
        return same_literal(c.obs, c.model)
    return FC.obs_matches_model(c)


def lit_bits(e):
    """bit pattern of a float literal tree built by float_lit"""
    if e[0] == "un":
        return e[2][2] | (1 << 31)
    if e[0] != "lit" or e[1] != "F32":
        raise ValueError("not an f32 literal")
    return e[2]
