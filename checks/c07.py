"""C07 — buffer memory layout is the WGSL layout, in the IR and in every backend.

Deciding method: Coq theorems over the unbounded type grammar (Props/C07.v):
the WGSL layout functions (Layout/Spec.v) have aligned, disjoint member
placements; naga's lowerer (Layout/Naga.v, transliterated) computes exactly the
WGSL layout under stated hypotheses and provably deviates outside them
(`_refuted` witnesses); HLSL byte-address arithmetic, the MSL struct emitter +
C++ layout, and GLSL std430/std140 are related to the WGSL layout.
Ties, re-checked on every run: (R) leaf tables and the rounding statements of
lowerStruct/resolveType are regenerated from the Go source (coq/Gen/LayoutTables.v)
and compared with the hand model by coqc; (C) the extracted models are compared
with the real compiler on seeded type trees: IR Offset/Span/Stride/TypeSize,
SPIR-V Offset/ArrayStride/MatrixStride decorations (own word reader), HLSL
literal byte addresses, MSL struct definitions through the C++ layout function,
GLSL blocks through std430/std140."""
import hashlib
import json
import os

import gen
import layoutgen as L
import nagarun
import ocamlbuild
import vcheck

LEVEL = "proof"

MODEL_FILES = ["Layout/Spec.v", "Layout/Constraints.v", "Layout/Naga.v", "Layout/Hlsl.v", "Layout/Glsl.v",
               "Layout/Msl.v", "Layout/Spv.v", "Layout/Arith.v", "Layout/SpecProofs.v", "Layout/NagaProofs.v",
               "Layout/HlslProofs.v", "Layout/GlslProofs.v", "Layout/MslProofs.v", "Layout/Codec.v"]

# fixed probes: the inputs of the known findings and of the refutation witnesses
PROBES = [
    ("nested-align", ["st", [[None, None, ["s", "f32"]], [None, None, ["st", [[["d", 16, 0], None, ["s", "f32"]]]]]]], None),
    ("hex-align", ["st", [[None, None, ["s", "f32"]], [["h", 16, 0], None, ["s", "f32"]], [None, None, ["s", "f32"]]]], None),
    ("const-size", ["st", [[None, None, ["s", "f32"]], [None, ["e", 16, 0], ["s", "f32"]], [None, None, ["s", "f32"]]]], None),
    ("expr-align", ["st", [[None, None, ["s", "f32"]], [["e", 16, 1], None, ["s", "f32"]], [None, None, ["s", "f32"]]]], None),
    ("vec3-size14", ["st", [[None, ["d", 14, 0], ["v", 3, "f32"]], [None, None, ["s", "f16"]]]], None),
    ("plain", ["st", [[None, None, ["s", "f32"]], [None, None, ["v", 3, "f32"]], [None, None, ["s", "f32"]],
                      [None, None, ["m", 3, 3, "f32"]], [None, None, ["arr", ["v", 3, "f32"], 3]],
                      [None, ["d", 32, 0], ["s", "u32"]], [["d", 32, 1], None, ["m", 2, 2, "f32"]],
                      [None, None, ["arr", ["m", 4, 2, "f32"], 2]], [None, None, ["rarr", ["v", 2, "u32"]]]]],
     ["st", [[None, None, ["v", 4, "f32"]], [None, None, ["m", 2, 2, "f32"]], [None, None, ["arr", ["v", 4, "f32"], 2]],
             [None, None, ["s", "f32"]]]]),
    ("hlsl-f16-matcx2", ["st", [[None, None, ["s", "u32"]], [None, None, ["st", [[None, None, ["s", "f32"]], [None, None, ["m", 2, 2, "f16"]]]]]]], None),
    ("hlsl-struct24", ["s", "u32"],
     ["st", [[None, None, ["st", [[None, None, ["m", 3, 2, "f32"]]]]], [None, None, ["v", 4, "f32"]]]]),
    ("uniform-natural", ["s", "u32"],
     ["st", [[None, None, ["v", 4, "f32"]], [None, None, ["m", 4, 4, "f32"]], [None, None, ["st", [[None, None, ["v", 3, "f32"]], [None, None, ["s", "f32"]]]]],
             [None, None, ["arr", ["m", 3, 3, "f32"], 2]], [None, None, ["v", 2, "f32"]]]]),
]


def tree_hash(t):
    return hashlib.sha256(json.dumps(L.wire(t), sort_keys=True).encode()).hexdigest()[:12]


def model_jobs(exe, trees_paths):
    vals = [{"op": "wgsl", "t": L.wire(t), "paths": ps} for t, ps in trees_paths]
    return vcheck.run_model(exe, vals)


def gen_programs(ctx, exe, n):
    """n programs: (name, storage tree, uniform tree or None)."""
    rng = ctx.rng.fork("trees")
    progs = []
    for name, st, ut in PROBES:
        progs.append((name, st, ut))
    cands = []
    i = 0
    while len(cands) < n:
        r = rng.fork("p%d" % i)
        i += 1
        mode = i % 10
        p_attr = [25, 25, 0, 40, 25, 10, 0, 25, 60, 25][mode]
        p_odd = 6 if mode in (1, 7) else 0
        g = L.Gen(r.fork("s"), "storage", p_attr=p_attr, p_odd=p_odd, f16=(mode % 3 != 2), budget=r.range(6, 44))
        st = g.root(r.range(1, 4))
        ut = None
        if mode % 2 == 0:
            gu = L.Gen(r.fork("u"), "uniform", p_attr=(0 if mode in (2, 6) else 30), p_odd=0, f16=False,
                       max_members=6, budget=r.range(4, 24))
            ut = gu.root(r.range(1, 3))
        cands.append(("g%d" % i, st, ut))
    # uniform trees must satisfy WGSL's uniform address space constraints (model decides)
    uts = [(c[2], []) for c in cands if c[2] is not None]
    res = model_jobs(exe, uts) if uts else []
    k = 0
    dropped = 0
    for name, st, ut in cands:
        if ut is not None:
            m = res[k]
            k += 1
            if not (m.get("ok") and m["wf"] and m["uniform_ok"] and m["fits"]):
                ut = None
                dropped += 1
        progs.append((name, st, ut))
    return progs, dropped


MAX_PER_CLASS = 4


def limit_reports(ctx):
    """At most MAX_PER_CLASS reported violations per class (key prefix before ':'); the rest are
    counted in the evidence.  Known findings are matched before the cap."""
    orig = ctx.violation
    counts = {}
    suppressed = {}

    def violation(what, files=None, found_input=True, key=None, broken=None):
        cls = (key or "none").split(":")[0]
        for k in ctx._known:
            if k.get("status") == "open" and key is not None and k.get("match") == key:
                return orig(what, files=files, found_input=found_input, key=key, broken=broken)
        counts[cls] = counts.get(cls, 0) + 1
        if counts[cls] > MAX_PER_CLASS:
            suppressed[cls] = suppressed.get(cls, 0) + 1
            return False
        return orig(what, files=files, found_input=found_input, key=key, broken=broken)

    ctx.violation = violation
    ctx.cov["violations_beyond_cap_per_class"] = suppressed


def run(ctx):
    limit_reports(ctx)
    tools = vcheck.build_harness(["goextract", "layoutdrive"])
    ok, failed, log = vcheck.proof_step(
        ctx, "Props/C07.v", MODEL_FILES,
        gen_writer=lambda: gen.regenerate(tools, ["layout"]),
        extra_obligation_files=["Layout/GenObligations.v"])
    ctx.cov["trusted_base"] += [
        "translator: harness/cmd/goextract (go/ast switch tables, assignment statements) + gen.py -> coq/Gen/LayoutTables.v",
        "extraction: ExtrOcamlBasic only; generic JSON driver ocaml/common/driver.ml; OCaml 4.13.1",
        "transcriptions of external specifications: WGSL 'Memory Layout' (Layout/Spec.v, Constraints.v), OpenGL 4.6 core 7.6.2.2 std140/std430 (Layout/Glsl.v), Metal Shading Language size/alignment tables + C++ struct layout (Layout/Msl.v); no reference tool in the sandbox to cross-check them",
        "readers (lib/layoutgen.py): SPIR-V word reader, HLSL Store/Load address reader, MSL struct parser, GLSL block parser, Go reflection dump of ir.Module.Types (harness/cmd/layoutdrive)",
        "modelled and proved about: wgsl/internal/lower/lower.go lowerStruct, getAlignAttribute/getSizeAttribute, typeAlignmentAndSize, array stride; ir/type_size.go; hlsl storage.go computeSubAccess; msl types.go writeStructDefinition/shouldPackMember/typeSize. NOT modelled (correspondence only): spirv decoration emission, hlsl whole-value load/store decomposition, hlsl cbuffer struct padding, glsl block emission",
        "transcription of HLSL 'Packing Rules for Constant Variables' (Layout/Hlsl.v)",
    ]
    ctx.assumptions = [
        "runtime-sized arrays: SizeOf is compared for one element (the static part of the layout)",
        "HLSL uniform (cbuffer) members are accessed by name: the emitted struct definitions are pushed through a transcription of HLSL's documented cbuffer packing rules (Layout/Hlsl.v hsize/hoffsets, extracted) and compared with the IR layout; there is no theorem about the struct emitter and no HLSL compiler in the sandbox to confirm the packing rules",
        "GLSL is compared at version 4.30 (storage buffers available); the 3.30 default is probed on the fixed inputs only",
        "workgroup variables have no host-visible layout; they are generated only to check that layout decorations of shared types survive",
    ]
    broken = None
    if not ok:
        broken = "Coq development no longer checks: %s" % (failed or log[-800:])
    try:
        exe = ocamlbuild.build("layout")
    except Exception as e:   # extraction needs the compiled development
        ctx.violation("extracted layout model cannot be built: %s" % str(e)[-1500:], found_input=False,
                      broken=broken or "extraction of Layout/Codec.v")
        return
    n = ctx.scale(200, 4000)
    replay = getattr(ctx, "replay", None)
    if replay and os.path.exists(os.path.join(replay, "tree.json")):
        with open(os.path.join(replay, "tree.json")) as f:
            tj = json.load(f)

        def unwire(t):
            if t is None:
                return None
            if t[0] == "arr":
                return ["arr", unwire(t[1]), t[2]]
            if t[0] == "rarr":
                return ["rarr", unwire(t[1])]
            if t[0] == "st":
                return ["st", [[(a + [0]) if a else None, (z + [0]) if z else None, unwire(mt)] for a, z, mt in t[1]]]
            return t
        progs, dropped = [("replay", unwire(tj["storage"]), unwire(tj.get("uniform")))], 0
    else:
        progs, dropped = gen_programs(ctx, exe, n)
    rng = ctx.rng.fork("render")
    jobs = []
    meta = {}
    for i, (name, st, ut) in enumerate(progs):
        src, info = L.program(st, ut, rng.fork(name), workgroup=(i % 3 == 0))
        jobs.append({"id": i, "src": src, "opts": {"glsl": [430, 330] if i < len(PROBES) else [430]}})
        meta[i] = (name, st, ut, src, info)
    # model answers
    mvals = []
    for i in range(len(progs)):
        name, st, ut, src, info = meta[i]
        mvals.append((st, [p for _, p, _ in info["paths"]] + (info["copy"] or [])))
    mres = model_jobs(exe, mvals)
    ures = {}
    uidx = [i for i in range(len(progs)) if meta[i][2] is not None]
    for i, r in zip(uidx, model_jobs(exe, [(meta[i][2], []) for i in uidx])):
        ures[i] = r
    res = nagarun.parallel_batches(tools["layoutdrive"], "compile", jobs, per_job_timeout=20.0, chunk=16)
    stats = {"programs": len(progs), "uniform_trees": len(uidx), "uniform_candidates_dropped": dropped,
             "ir_compared": 0, "spv_compared": 0, "hlsl_addresses_compared": 0, "msl_compared": 0, "hlsl_cbuffers_compared": 0,
             "glsl_compared": 0, "rejected_by_naga": 0, "trees_within_theorem_hypotheses": 0,
             "known_deviation_trees": 0, "max_depth": 0, "max_nodes": 0, "with_align": 0, "with_size": 0,
             "with_f16": 0, "with_runtime_array": 0}
    shapes = set()
    Q = {"msl": [], "glsl": [], "hlslcb": []}
    for i in range(len(progs)):
        name, st, ut, src, info = meta[i]
        r = res.get(i)
        files = {"input.wgsl": src, "tree.json": json.dumps({"storage": L.wire(st), "uniform": L.wire(ut) if ut else None})}
        if r is None or "crash" in r or "panic" in r:
            ctx.violation("naga crashed on a layout program (%s): %s" % (name, (r or {}).get("panic") or (r or {}).get("crash")),
                          files=files, key="crash:" + name)
            continue
        if "err" in r:
            stats["rejected_by_naga"] += 1
            ctx.violation("valid host-shareable declaration rejected at %s: %s" % (r.get("stage"), r["err"][:300]),
                          files=files, key="rejected:" + L.re.sub(r"\d+", "N", r["err"])[:80])
            continue
        if L.count_nodes(st) >= 3:
            shapes.add(tree_hash(st))
        stats["max_depth"] = max(stats["max_depth"], L.depth_of(st))
        stats["max_nodes"] = max(stats["max_nodes"], L.count_nodes(st))
        txt = json.dumps(L.wire(st))
        stats["with_f16"] += "f16" in txt
        stats["with_runtime_array"] += "rarr" in txt
        stats["with_align"] += "@align" in src
        stats["with_size"] += "@size" in src
        check_var(ctx, Q, stats, name, "sb", 0, st, mres[i], r, info, files, storage=True)
        if ut is not None:
            if L.count_nodes(ut) >= 3:
                shapes.add(tree_hash(ut))
            check_var(ctx, Q, stats, name, "ub", 1, ut, ures[i], r, info, files, storage=False)
        if len(ctx.cov["samples"]) < 5 and i >= len(PROBES):
            ctx.sample({"program": name, "wgsl_head": src[:300], "spec_layout": mres[i]["spec"]})
    finish_msl(ctx, exe, Q["msl"], stats)
    finish_hlslcb(ctx, exe, Q["hlslcb"], stats)
    finish_glsl(ctx, exe, Q["glsl"], stats)
    ctx.cov["correspondence"] = stats
    ctx.cov["evaluations"] = (stats["ir_compared"] + stats["spv_compared"] + stats["hlsl_addresses_compared"] +
                              stats["msl_compared"] + stats["glsl_compared"] + stats["hlsl_cbuffers_compared"])
    ctx.cov["distinct_nontrivial"] = len(shapes)
    ctx.cov["traces_validated_against_impl"] = stats["ir_compared"]
    ctx.cov["rule"] = ("one evaluation = one (variable, observable) comparison: IR layout tree, SPIR-V decoration tree, "
                       "one HLSL literal address, MSL definition through the C++ layout, GLSL block through std430/std140; "
                       "distinct_nontrivial = distinct type trees (hash of the tree) with at least three nodes, i.e. at least "
                       "two members/elements whose relative placement is decided by the layout rules")
    if broken and not ctx.violations:
        ctx.violation(broken + "\n(no type tree with a wrong layout was found by the correspondence search)",
                      found_input=False, broken=broken)
    elif broken:
        ctx.cov["broken_tie"] = broken


def is_subsequence(a, b):
    it = iter(b)
    return all(x in it for x in a)


def hyp_ok(m):
    return m["wf"] and m["plain"] and m["inert"] and m["fits"]


def check_var(ctx, Q, stats, name, var, binding, tree, m, r, info, files, storage):
    if not m.get("ok") or not m["wf"]:
        ctx.violation("generator produced a tree the model does not accept as host-shareable (%s %s): %s" % (name, var, m),
                      files=files, found_input=False, key="generator:" + name)
        return
    th = tree_hash(tree)
    spec, naga_model = m["spec"], m["naga"]
    # ---------------- IR
    gv = [g for g in r["globals"] if g["Name"] == var]
    if not gv:
        ctx.violation("variable %s missing from the lowered module (%s)" % (var, name), files=files, key="ir-var:" + name)
        return
    ir = L.ir_layout(r["types"], r["typesize"], gv[0]["Type"])
    stats["ir_compared"] += 1
    ir_is_spec = ir == spec
    if ir != naga_model:
        ctx.violation("IR layout of %s differs from the model of the lowerer (%s): %s\nIR    %s\nmodel %s\nspec  %s"
                      % (var, name, L.first_diff(ir, naga_model), ir, naga_model, spec),
                      files=files, key="ir-vs-model:" + th,
                      broken="correspondence Layout/Naga.v <-> wgsl/internal/lower (lowerStruct/typeAlignmentAndSize)")
    if hyp_ok(m):
        stats["trees_within_theorem_hypotheses"] += 1
    if not ir_is_spec:
        d = L.first_diff(ir, spec)
        what = "IR layout of %s is not the WGSL layout (%s): %s\nIR   %s\nWGSL %s" % (var, name, d, ir, spec)
        if ir == naga_model and not m["plain"]:
            stats["known_deviation_trees"] += 1
            ctx.violation(what, files=files, key="lower:attr-not-decimal-literal")
        elif ir == naga_model and not m["inert"]:
            stats["known_deviation_trees"] += 1
            ctx.violation(what, files=files, key="lower:nested-struct-align")
        elif ir == naga_model:
            ctx.violation(what + "\n(contradicts naga_layout_eq_spec_partial: hypotheses hold)", files=files,
                          key="ir-vs-spec:" + th, broken="theorem naga_layout_eq_spec_partial vs model")
        else:
            ctx.violation(what, files=files, key="ir-vs-spec:" + th)
    # everything downstream is compared with the layout the IR carries
    want = ir
    # ---------------- SPIR-V
    if "spv" in r:
        try:
            sp = L.Spv(bytes.fromhex(r["spv"]))
            v = sp.var_by_binding(0, binding)
            problems = []
            if v is None:
                problems.append("no variable with binding %d" % binding)
                got = None
            else:
                got = sp.layout(v[1], None, problems, var)
                # the variable's type is a Block struct; a non-dynamic root is wrapped in struct { T } at Offset 0
                if want[0] != "s" or got[0] == "s" and len(got[2]) == 1 and L.erase(got[3][0], False, True) == L.erase(want, False, True):
                    if got[2] != [0]:
                        problems.append("wrapper member Offset %s" % got[2])
                    got = got[3][0]
            stats["spv_compared"] += 1
            if got is None or problems or L.erase(got, False, True) != L.erase(want, False, True):
                ctx.violation("SPIR-V decorations of %s differ from the IR layout (%s): %s %s\nSPIR-V %s\nIR     %s"
                              % (var, name, problems, got and L.first_diff(L.erase(got, False, True), L.erase(want, False, True)), got, want),
                              files=dict(files, **{"out.spv": bytes.fromhex(r["spv"])}),
                              key="spv:" + th, broken="SPIR-V Offset/ArrayStride/MatrixStride emission")
        except Exception as e:
            ctx.violation("SPIR-V of %s could not be read (%s): %r" % (var, name, e), files=files, key="spv-read:" + name)
    else:
        ctx.violation("SPIR-V backend failed on a host-shareable type (%s): %s" % (name, r.get("spv_err")), files=files,
                      key="spv-err:" + L.re.sub(r"\d+", "N", str(r.get("spv_err")))[:80])
    # ---------------- HLSL (storage: byte addresses)
    if "hlsl" in r and storage and ir != naga_model:
        stats["hlsl_skipped_ir_differs_from_model"] = stats.get("hlsl_skipped_ir_differs_from_model", 0) + 1
    elif "hlsl" in r and storage:
        stores = L.hlsl_stores(r["hlsl"], "sb")
        byk = {}
        for k, op, lits, line in stores:
            byk.setdefault(k, []).append((op, lits, line))
        for (k, p, lt), so, ho in zip(info["paths"], m["spec_paths"], m["hlsl_paths"]):
            got = byk.get(k)
            if lt[0] == "m":
                # whole-matrix store: one store per column at column stride
                cs = (2 if lt[2] == 2 else 4) * L.SW[lt[3]]
                exp = [ho + c * cs for c in range(lt[1])] if ho is not None else None
            else:
                exp = [ho] if ho is not None else None
            stats["hlsl_addresses_compared"] += 1
            if not got or exp is None:
                ctx.violation("HLSL store for path %s of sb not found (%s)" % (p, name), files=dict(files, **{"out.hlsl": r["hlsl"]}),
                              key="hlsl-missing:" + th, broken="HLSL reader / store emission")
                break
            addrs = [sum(l) if l is not None else None for _, l, _ in got]
            if addrs != exp:
                ctx.violation("HLSL addresses path sb%s at byte %s, the IR layout puts it at %s (WGSL: %s) (%s)\n%s"
                              % (L.path_text(tree, p), addrs, exp, so, name, "\n".join(g[2] for g in got)),
                              files=dict(files, **{"out.hlsl": r["hlsl"]}), key="hlsl:" + th,
                              broken="HLSL byte-address arithmetic (storage.go computeSubAccess / writeStorageStore)")
                break
        if info.get("copy") and not any(v[3] == "hlsl:" + th for v in ctx.violations):
            exp = m["hlsl_paths"][len(info["paths"]):]
            loads, stores = L.hlsl_copy_addresses(r["hlsl"], "sb")
            stats["hlsl_copy_sequences_compared"] = stats.get("hlsl_copy_sequences_compared", 0) + 1
            stats["hlsl_addresses_compared"] += 2 * len(exp)
            f16cx2 = '["m", 2, 2, "f16"]' in json.dumps(tree) or '["m", 3, 2, "f16"]' in json.dumps(tree) \
                or '["m", 4, 2, "f16"]' in json.dumps(tree)
            if loads == exp and stores != exp and f16cx2 and stores is not None and is_subsequence(stores, exp):
                ctx.violation("HLSL store of a structure value drops its matCx2<f16> members: stores at %s, components at %s (%s)"
                              % (stores, exp, name), files=dict(files, **{"out.hlsl": r["hlsl"]}),
                              key="hlsl-copy:f16-matCx2-struct-member-not-stored")
            elif loads != exp or stores != exp:
                ctx.violation("HLSL whole-value load/store of an aggregate of sb uses addresses\n loads  %s\n stores %s\n"
                              "the IR layout puts its components at\n        %s (%s)" % (loads, stores, exp, name),
                              files=dict(files, **{"out.hlsl": r["hlsl"]}), key="hlsl-copy:" + th,
                              broken="HLSL writeStorageLoad / writeStorageStore offset accumulation")
    elif "hlsl" in r and not storage:
        try:
            hh = L.Hlsl(r["hlsl"])
            cb = hh.cbuffer(var)
            if cb is None:
                raise ValueError("cbuffer for %s not found" % var)
            Q["hlslcb"].append((name, var, th, tree, m, cb, want, files, r["hlsl"]))
        except Exception as e:
            ctx.violation("HLSL cbuffer of %s could not be read (%s): %r" % (var, name, e),
                          files=dict(files, **{"out.hlsl": r["hlsl"]}), key="hlslcb-read:" + name)
    elif "hlsl" not in r:
        ctx.violation("HLSL backend failed on a host-shareable type (%s): %s" % (name, r.get("hlsl_err")), files=files,
                      key="hlsl-err:" + L.re.sub(r"\d+", "N", str(r.get("hlsl_err")))[:80])
    # ---------------- MSL
    if "msl" in r:
        try:
            ms = L.Msl(r["msl"])
            tn = ms.param_type(var)
            if tn is None:
                raise ValueError("kernel parameter for %s not found" % var)
            c = ms.ctype(tn)
            Q["msl"].append((name, var, th, tree, m, c, want, files, r["msl"]))
        except Exception as e:
            ctx.violation("MSL of %s could not be read (%s): %r" % (var, name, e), files=dict(files, **{"out.msl": r["msl"]}),
                          key="msl-read:" + name)
    else:
        ctx.violation("MSL backend failed on a host-shareable type (%s): %s" % (name, r.get("msl_err")), files=files,
                      key="msl-err:" + L.re.sub(r"\d+", "N", str(r.get("msl_err")))[:80])
    # ---------------- GLSL below 4.30 (probes only): storage buffers
    g330 = (r.get("glsl") or {}).get("330")
    if isinstance(g330, str) and storage:
        try:
            b = L.Glsl(g330).block_for(0, binding)
            stats["glsl330_storage_blocks"] = stats.get("glsl330_storage_blocks", 0) + 1
            if b is not None and (b[0], b[1]) != ("std430", "buffer"):
                ctx.violation("GLSL 3.30 (the default target): read_write storage buffer %s is declared `layout(%s) %s` - an std140 "
                              "uniform block: not writable, and arrays/structures are laid out by std140 instead of the WGSL rules (%s)"
                              % (var, b[0], b[1], name), files=dict(files, **{"out330.glsl": g330}),
                              key="glsl330:storage-buffer-as-std140-uniform-block")
        except Exception:
            pass
    # ---------------- GLSL
    g = (r.get("glsl") or {}).get("430")
    if isinstance(g, str):
        try:
            gl = L.Glsl(g)
            b = gl.block_for(0, binding)
            if b is None:
                raise ValueError("block for binding %d not found" % binding)
            Q["glsl"].append((name, var, th, tree, m, b, spec, files, g, storage))
        except Exception as e:
            ctx.violation("GLSL of %s could not be read (%s): %r" % (var, name, e), files=dict(files, **{"out.glsl": g}),
                          key="glsl-read:" + name)
    else:
        ctx.violation("GLSL backend failed on a host-shareable type (%s): %s" % (name, g), files=files,
                      key="glsl-err:" + L.re.sub(r"\d+", "N", str(g))[:80])


def prev_member_is_vec3(tree, diff):
    """diff text '<path>.mJ: offset ...' -> is member J-1 of that struct a vec3?"""
    mm = L.re.match(r"((?:\.m\d+|\[\])*)\.m(\d+): offset", diff or "")
    if not mm:
        return False
    t = tree
    for step in L.re.findall(r"\.m(\d+)|(\[\])", mm.group(1)):
        if step[1]:
            t = t[1]
        else:
            t = t[1][int(step[0])][2]
    j = int(mm.group(2))
    if t[0] != "st" or j == 0:
        return False
    pt = t[1][j - 1][2]
    return pt[0] == "v" and pt[1] == 3


def finish_msl(ctx, exe, queue, stats):
    if not queue:
        return
    res = vcheck.run_model(exe, [{"op": "cxx", "c": q[5]} for q in queue])
    for (name, var, th, tree, m, c, want, files, text), cr in zip(queue, res):
        stats["msl_compared"] += 1
        files = dict(files, **{"out.msl": text})
        if not cr.get("ok"):
            ctx.violation("MSL definition of %s not understood by the C++ layout model (%s): %s" % (var, name, cr), files=files,
                          key="msl-read:" + name)
            continue
        got = L.erase(cr["lay"], True, False)
        exp = L.erase(want, True, False)
        if got == exp:
            continue
        d = L.first_diff(got, exp)
        what = ("MSL struct definition of %s places data differently from the IR layout (%s): %s\nC++ layout %s\nIR layout  %s"
                % (var, name, d, got, exp))
        model = L.erase(m["msl"], True, False)
        if got == model and prev_member_is_vec3(tree, d):
            ctx.violation(what, files=files, key="msl:unpacked-vec3-before-narrow-gap")
        elif got == model:
            ctx.violation(what + "\n(the model of the MSL emitter predicts this deviation)", files=files, key="msl-model-predicted:" + th)
        else:
            ctx.violation(what + "\nmodel of the emitter gives %s" % model, files=files, key="msl:" + th,
                          broken="MSL struct emission (types.go writeStructDefinition / shouldPackMember)")


def normalise_decl(t):
    k = t[0]
    if k == "a":
        return ["s", t[1]]
    if k == "arr":
        return ["arr", normalise_decl(t[1]), t[2]]
    if k == "rarr":
        return ["rarr", normalise_decl(t[1])]
    if k == "st":
        return ["st", [[None, None, normalise_decl(mt)] for _, _, mt in t[1]]]
    return list(t)


def finish_glsl(ctx, exe, queue, stats):
    if not queue:
        return
    res = vcheck.run_model(exe, [{"op": "glsl", "t": q[5][3], "std140": q[5][0] == "std140"} for q in queue])
    for (name, var, th, tree, m, b, spec, files, text, storage), gr in zip(queue, res):
        stats["glsl_compared"] += 1
        files = dict(files, **{"out.glsl": text})
        q, kind, inst, gtree, expanded = b
        if (storage and (q, kind) != ("std430", "buffer")) or (not storage and (q, kind) != ("std140", "uniform")):
            ctx.violation("GLSL block of %s is `layout(%s) %s` (%s)" % (var, q, kind, name), files=files, key="glsl-qualifier:" + q + kind)
            continue
        if not gr.get("ok"):
            ctx.violation("GLSL block of %s not understood by the std layout model (%s): %s" % (var, name, gr), files=files,
                          key="glsl-read:" + name)
            continue
        std140 = q == "std140"
        got = L.erase(gr["lay"], False, True)
        exp = L.erase(spec, False, True)
        if got == exp:
            continue
        d = L.first_diff(got, exp)
        what = ("GLSL %s block of %s does not coincide with the WGSL layout (%s): %s\n%s layout %s\nWGSL layout %s"
                % (q, var, name, d, q, got, exp))
        decl_faithful = normalise_decl(gtree) == normalise_decl(L.wire(tree))
        if not decl_faithful:
            if L.uses_f16(tree):
                ctx.violation(what, files=files, key="glsl:f16-emitted-as-f32")
            else:
                ctx.violation(what + "\n(the declared GLSL types are not the WGSL types)", files=files, key="glsl-decl:" + th,
                              broken="GLSL type emission")
        elif m["spec"] != m["spec_stripped"]:
            ctx.violation(what, files=files, key="glsl:align-size-attributes-not-expressible")
        elif std140 and not m["mat140_ok"]:
            ctx.violation(what, files=files, key="glsl:std140-matCx2-column-stride")
        else:
            ctx.violation(what + "\n(contradicts %s)" % ("std140_eq_wgsl" if std140 else "std430_eq_wgsl"), files=files,
                          key="glsl:" + th, broken="theorem std430/std140_eq_wgsl vs extracted model")


def finish_hlslcb(ctx, exe, queue, stats):
    if not queue:
        return
    res = vcheck.run_model(exe, [{"op": "hlslcb", "h": q[5][0]} for q in queue])
    defs = vcheck.run_model(exe, [{"op": "hlsldef", "t": L.wire(q[3])} for q in queue])
    for (name, var, th, tree, m, cb, want, files, text), hr, md in zip(queue, res, defs):
        stats["hlsl_cbuffers_compared"] += 1
        files = dict(files, **{"out.hlsl": text})
        if not hr.get("ok") or not md.get("ok"):
            ctx.violation("HLSL cbuffer member of %s not understood by the packing model (%s): %s %s" % (var, name, hr, md),
                          files=files, key="hlslcb-read:" + name)
            continue
        # struct sizes are not compared (HLSL rounds them to 16; only placements matter)
        if json.dumps(cb[0]) == json.dumps(md["def"]):
            stats["hlsl_cbuffer_defs_equal_emitter_model"] = stats.get("hlsl_cbuffer_defs_equal_emitter_model", 0) + 1
        got = L.erase(L.hl_to_lay(hr["lay"], cb[1]), True, True)
        exp = L.erase(want, True, True)
        bad = L.hl_continuations_ok(hr["lay"])
        if got == exp and not bad:
            continue
        d = L.first_diff(got, exp)
        what = ("HLSL cbuffer packing of the struct emitted for %s differs from the IR layout (%s): %s %s\n"
                "HLSL packing %s\nIR layout    %s" % (var, name, d, bad or "", got, exp))
        as_modelled = json.dumps(cb[0]) == json.dumps(md["def"])
        if as_modelled and L.has_struct_span_not_16(want):
            # the emitter behaves as transliterated (Layout/Hlsl.v hlsl_def) and the tree contains what the
            # model mis-pads: a nested structure whose Span is not a multiple of 16
            ctx.violation(what, files=files, key="hlslcb:pad-after-struct-with-span-not-multiple-of-16")
        elif as_modelled:
            ctx.violation(what + "\n(the model of the struct emitter predicts this deviation)", files=files,
                          key="hlslcb-model-predicted:" + th)
        else:
            ctx.violation(what + "\nemitted definition  %s\nmodel of the emitter %s" % (cb[0], md["def"]), files=files, key="hlslcb:" + th,
                          broken="HLSL cbuffer struct emission (types.go writeStructDefinition padding / matCx2 decomposition)")
