// C12 pipeline constants: two entry points (glsl.Compile runs once per entry point on the same module) sharing a
// helper that mentions the overrides.
override tint: f32 = 0.5;
override lit: bool;
@id(2) override layers: u32 = 2u;

fn shade(c: vec4<f32>) -> vec4<f32> {
    var o = c;
    for (var i = 0u; i < layers; i = i + 1u) {
        if (lit) { o = o * tint; }
    }
    return o + vec4<f32>(tint);
}

@vertex
fn vs(@builtin(vertex_index) i: u32) -> @builtin(position) vec4<f32> {
    return shade(vec4<f32>(f32(i) * tint, 0.0, 0.0, 1.0));
}

@fragment
fn fs(@location(0) c: vec4<f32>) -> @location(0) vec4<f32> {
    return shade(c);
}
