// C12 pipeline constants: overrides in global initialisers, a derived override and folding of global expressions
// (the arena Module.GlobalExpressions is rewritten by override resolution: it must be the clone's, not the caller's).
@id(3) override gain: f32 = 1.5;
override bias: f32;
override twice = 2.0 * gain;
override steps: i32 = 4;
override on: bool = true;

var<private> gain_x_10: f32 = gain * 10.0;
var<private> neg_bias: f32 = -bias;
var<private> counter: i32 = steps;
var<private> plain: f32 = 0.25;

@group(0) @binding(0) var<storage, read_write> out: array<f32, 8>;

@compute @workgroup_size(1)
fn main() {
    out[0] = gain_x_10 + neg_bias + plain;
    out[1] = twice * f32(counter);
    out[2] = select(gain, bias, on);
    out[3] = gain + twice;
}
