struct P { x: f32, y: f32 }
struct Q { u: f32, v: f32 }
struct R { s: f32, t: f32 }
@group(0) @binding(0) var<storage, read_write> o: array<f32, 8>;
@compute @workgroup_size(1)
fn main(@builtin(global_invocation_id) id: vec3<u32>) {
  var p: P;
  var q: Q;
  var r: R;
  p.x = f32(id.x);
  q.u = f32(id.y);
  r.s = f32(id.z);
  var i = 0u;
  loop {
    if (i >= id.x) { break; }
    o[i] = p.x + q.u + r.s + p.y + q.v + r.t;
    i = i + 1u;
  }
  o[0] = p.x; o[1] = p.y; o[2] = q.u; o[3] = q.v; o[4] = r.s; o[5] = r.t;
}
