@group(0) @binding(0) var t: texture_2d<f32>;
@group(0) @binding(1) var s1: sampler;
@group(0) @binding(2) var s2: sampler;
@group(0) @binding(3) var s3: sampler;
@fragment
fn main(@location(0) uv: vec2<f32>) -> @location(0) vec4<f32> {
  let d = textureDimensions(t);
  let a = textureSample(t, s1, uv);
  let b = textureSample(t, s2, uv);
  let c = textureSample(t, s3, uv);
  return a + b + c + vec4<f32>(f32(d.x));
}
