@group(0) @binding(0) var<storage, read_write> o: array<f32, 4>;
fn helper(x: f32) -> f32 { var p = 1; var q = 2; var r = 3; return x; }
@compute @workgroup_size(1)
fn main() { var a = 1; var b = 2; var c = 3; var d = 4; var e = 5; o[0] = helper(1.0); }
