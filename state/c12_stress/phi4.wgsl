@group(0) @binding(0) var<storage, read_write> o: array<f32, 8>;
@compute @workgroup_size(1)
fn main(@builtin(global_invocation_id) id: vec3<u32>) {
  var a: f32;
  var b: f32;
  var c: f32;
  var d: f32;
  if (id.x > 1u) {
    a = 1.0; b = 2.0; c = 3.0; d = 4.0;
  } else {
    a = 5.0; b = 6.0; c = 7.0; d = 8.0;
  }
  o[0] = a; o[1] = b; o[2] = c; o[3] = d;
}
