struct P { v: vec4<f32>, w: vec4<f32> }
struct Q { v: vec4<f32>, w: vec4<f32> }
struct R { v: vec4<f32>, w: vec4<f32> }
@group(0) @binding(0) var<storage, read_write> o: array<f32, 16>;
@group(0) @binding(1) var<uniform> u: vec4<u32>;
@compute @workgroup_size(1)
fn main() {
  var p: P;
  var q: Q;
  var r: R;
  p.v[u.x] = 1.0;
  q.v[u.y] = 2.0;
  r.v[u.z] = 3.0;
  p.w[u.x] = 4.0;
  q.w[u.y] = 5.0;
  r.w[u.z] = 6.0;
  o[0] = p.v.x + p.w.y; o[1] = q.v.y + q.w.z; o[2] = r.v.z + r.w.x;
}
