// C12 pipeline constants: overrides used inside nested blocks (if / loop / switch / block), as call arguments, in
// call results and return values.  Override resolution renumbers the expression handles of every function that
// mentions an override; the statements that carry those handles must be the clone's.
override scale: f32 = 2.0;
override n: u32 = 3u;
override flag: bool = false;
@id(9) override mode: i32;

@group(0) @binding(0) var<storage, read_write> data: array<f32>;

fn leaf(a: f32, b: f32) -> f32 {
    return a * b + scale;
}

fn helper(x: f32, k: u32) -> f32 {
    var acc = x;
    for (var i = 0u; i < k; i = i + 1u) {
        if (flag) { acc = acc * scale; } else { acc = leaf(acc, scale); }
        if (acc > 1000.0) { return acc; }
    }
    switch (mode) {
        case 0: { acc = acc + 1.0; }
        case 1, 2: { { acc = leaf(scale, acc); } }
        default: { loop { acc = acc - scale; if (acc < 0.0) { break; } } }
    }
    return acc * scale;
}

@compute @workgroup_size(1)
fn main(@builtin(global_invocation_id) gid: vec3<u32>) {
    let v = helper(data[gid.x], n);
    if (v > scale) {
        data[gid.x] = helper(v, n + 1u);
    }
}
