// several unused let bindings denoting one expression, many promotable locals merging at if / switch:
// anything that visits a Go map of locals or candidates shows up as run-to-run differences
@group(0) @binding(0) var<storage, read_write> outb: array<f32>;
@group(0) @binding(1) var<storage, read> inb: array<vec4<f32>>;

fn helper(a: f32, b: f32) -> f32 {
  var acc = a;
  let p = &acc; let q = &acc; let r = &acc;
  if a < b { acc = b; } else { acc = a * 2.0; }
  return acc;
}

@compute @workgroup_size(1)
fn main(@builtin(global_invocation_id) gid: vec3<u32>) {
  let v = inb[gid.x % 4u];
  let v1 = v; let v2 = v; let v3 = v; let v4 = v;
  var m0 = v.x; var m1 = v.y; var m2 = v.z; var m3 = v.w; var m4 = v.x + v.y; var m5 = v.z * v.w; var m6 = 1.0; var m7 = 2.0;
  let a0 = &m0; let a1 = &m0; let a2 = &m1; let a3 = &m1;
  if v.x > 0.5 { m0 = m1; m2 = m3; m4 = m5; m6 = m7; } else { m1 = m0; m3 = m2; m5 = m4; m7 = m6; }
  switch gid.x % 3u {
    case 0u: { m0 += 1.0; m3 += 2.0; m5 += 3.0; }
    case 1u: { m1 += 1.0; m2 += 2.0; m4 += 3.0; m7 += 4.0; }
    default: { m6 += helper(m0, m1); }
  }
  for (var k = 0u; k < 3u; k++) { m0 += m1; m2 += m3; if m0 > m2 { m4 = m5; } else { m6 = m7; } }
  outb[gid.x % 8u] = m0 + m1 + m2 + m3 + m4 + m5 + m6 + m7;
}
