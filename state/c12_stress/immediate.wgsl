// immediate data without @group/@binding next to bound resources
struct Im { a: vec2<u32>, b: f32 }
var<immediate> im: Im;
@group(0) @binding(0) var<storage, read_write> o: array<u32, 8>;
fn pick(k: u32) -> u32 { return im.a.x + k * im.a.y; }
@compute @workgroup_size(1) fn main() { o[pick(1u) & 7u] = pick(2u) + u32(im.b); }
