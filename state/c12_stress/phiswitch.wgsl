@group(0) @binding(0) var<storage, read_write> o: array<f32, 8>;
@compute @workgroup_size(1)
fn main(@builtin(global_invocation_id) id: vec3<u32>) {
  var a: f32;
  var b: f32;
  switch (id.x) {
    case 0u: { a = 1.0; b = 2.0; }
    case 1u: { a = 3.0; b = 4.0; }
    default: { a = 5.0; b = 6.0; }
  }
  o[0] = a; o[1] = b;
}
