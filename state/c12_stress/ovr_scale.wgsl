// C12 pipeline constants: one f32 override with a default, used in an entry-point expression. Two pipelines from one
// module (constants {scale: 7}, then none): the second output must still say scale = 2.0.
override scale: f32 = 2.0;

@group(0) @binding(0) var<storage, read_write> data: array<f32>;

@compute @workgroup_size(1)
fn main(@builtin(global_invocation_id) gid: vec3<u32>) {
    data[gid.x] = data[gid.x] * scale;
}
