// a legacy push-constant block without @group/@binding: back ends assign it a synthetic binding / register themselves
struct PC { scale: vec4<f32>, index: u32, bias: f32 }
var<push_constant> pc: PC;
@group(0) @binding(0) var<storage, read_write> o: array<f32, 8>;
@group(0) @binding(1) var<uniform> u: vec4<f32>;
fn weigh(x: f32) -> f32 { return x * pc.scale.y + pc.bias; }
@compute @workgroup_size(1) fn main() { o[pc.index & 7u] = weigh(u.x) + pc.scale.x; }
@vertex fn vs(@builtin(vertex_index) vi: u32) -> @builtin(position) vec4<f32> { return pc.scale * f32(vi) + u; }
@fragment fn fs() -> @location(0) vec4<f32> { return vec4<f32>(weigh(u.y)); }
