@group(0) @binding(0) var<storage, read_write> o: array<f32, 8>;
@compute @workgroup_size(1)
fn main(@builtin(global_invocation_id) id: vec3<u32>) {
  var a: f32;
  var b: f32;
  var c: f32;
  o[4] = a + b + c;
  a = 1.0; b = 2.0; c = 3.0;
  o[0] = a; o[1] = b; o[2] = c;
}
