// C12 pipeline constants: bool / i32 / u32 / f32 overrides with and without default, with and without @id,
// one with an inferred type; straight-line use only (no nested block, no call, no returned value).
@id(0) override b0: bool = true;
override b1: bool;
@id(11) override i0: i32 = -2;
override i1: i32;
override u0: u32 = 3u;
@id(12) override u1: u32;
override f0: f32 = 0.5;
@id(1300) override f1: f32;
override inferred = 2.718;

@group(0) @binding(0) var<storage, read_write> out: array<f32, 4>;

@compute @workgroup_size(1)
fn main() {
    let s = f32(i0 + i1) + f32(u0 * u1) + f0 * f1 + inferred;
    out[0] = s;
    out[1] = select(0.0, 1.0, b0 && !b1);
    out[2] = f32(i0) - f0;
}
