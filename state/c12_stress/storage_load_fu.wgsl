// C12 map-order stress: exactly TWO single-channel storage texel kinds (float, uint) are loaded, so the HLSL writer's
// set of LoadedStorageValueFrom<T> helpers has two keys (key sets of size 2 are the smallest that can be misordered).
@group(0) @binding(0) var img_f: texture_storage_2d<r32float, read>;
@group(0) @binding(1) var img_u: texture_storage_2d<r32uint, read>;
@group(0) @binding(2) var<storage, read_write> out: array<vec4<f32>>;

@compute @workgroup_size(1)
fn main(@builtin(global_invocation_id) gid: vec3<u32>) {
    let f = textureLoad(img_f, gid.xy);
    let u = textureLoad(img_u, gid.xy);
    out[gid.x] = f + vec4<f32>(u);
}
