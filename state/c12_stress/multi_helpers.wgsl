struct S { a: f32, b: vec2<f32>, c: u32 }
struct T { a: f32, b: vec2<f32>, c: u32 }
@group(0) @binding(0) var<storage, read_write> o: array<f32, 16>;
@group(0) @binding(1) var<uniform> u: S;
var<workgroup> wg: array<f32, 4>;
var<private> pv: T;
fn f1(x: f32) -> f32 { return x * 2.0; }
fn f2(x: f32) -> f32 { return f1(x) + f3(x); }
fn f3(x: f32) -> f32 { return x - 1.0; }
fn f4(x: f32) -> f32 { return f2(x) * f3(x) + f1(x); }
fn g(p: ptr<function, S>) -> f32 { (*p).a = (*p).a + 1.0; return (*p).a; }
@compute @workgroup_size(4)
fn main(@builtin(local_invocation_index) li: u32) {
  var s: S;
  var t: T;
  s.a = u.a; s.b = u.b; s.c = u.c;
  t.a = f4(s.a); t.b = s.b * 2.0; t.c = s.c / 3u;
  pv = t;
  wg[li] = g(&s) + f32(t.c % 5u);
  workgroupBarrier();
  o[li] = wg[(li + 1u) % 4u] + pv.a + t.b.x + f32(i32(li) / -3);
}
