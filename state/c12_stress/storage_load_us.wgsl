// C12 map-order stress: two single-channel storage texel kinds (uint, sint); see storage_load_fu.wgsl.
@group(0) @binding(0) var img_u: texture_storage_2d<r32uint, read>;
@group(0) @binding(1) var img_i: texture_storage_2d<r32sint, read>;
@group(0) @binding(2) var<storage, read_write> out: array<vec4<f32>>;

@compute @workgroup_size(1)
fn main(@builtin(global_invocation_id) gid: vec3<u32>) {
    let u = textureLoad(img_u, gid.xy);
    let i = textureLoad(img_i, gid.xy);
    out[gid.x] = vec4<f32>(u) + vec4<f32>(i);
}
