// C12 pipeline constants: overrides as workgroup size and workgroup array length, one addressed by @id only.
override wx: u32 = 4u;
@id(7) override wy: u32;
override len: u32 = 8u;

var<workgroup> tile: array<f32, len>;
@group(0) @binding(0) var<storage, read_write> d: array<f32>;

@compute @workgroup_size(wx, wy, 1)
fn main(@builtin(local_invocation_index) i: u32) {
    tile[i % len] = f32(wx * wy);
    workgroupBarrier();
    d[i] = tile[(i + 1u) % len];
}
