struct P { x: f32, y: f32 }
struct Q { u: u32, v: u32 }
struct R { s: f32, t: u32 }
@group(0) @binding(0) var<storage, read_write> o: array<f32, 8>;
@compute @workgroup_size(1)
fn main(@builtin(global_invocation_id) id: vec3<u32>) {
  var p: P;
  var q: Q;
  var r: R;
  for (var i = 0u; i < id.x; i = i + 1u) {
    p.x = p.x + 1.0;
    p.y = p.y + 2.0;
    q.u = q.u + 3u;
    q.v = q.v + i;
    r.s = r.s + 0.5;
    r.t = r.t + 7u;
  }
  o[0] = p.x; o[1] = p.y; o[2] = f32(q.u); o[3] = f32(q.v); o[4] = r.s; o[5] = f32(r.t);
}
