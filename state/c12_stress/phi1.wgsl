@group(0) @binding(0) var<storage, read_write> o: array<f32, 8>;
@compute @workgroup_size(1)
fn main(@builtin(global_invocation_id) id: vec3<u32>) {
  var a: f32;
  if (id.x > 1u) { a = 1.0; } else { a = 5.0; }
  o[0] = a;
}
