#!/usr/bin/env python3
"""Run the complete existing test suite with each seeded change applied (private worktree), for the seeds whose
meta.json does not yet record it.  tools/seedsuite.py [seed-name ...]"""
import glob, json, os, subprocess, sys, time
VERIF = os.path.dirname(os.path.dirname(os.path.abspath(__file__)))
env = dict(os.environ, GOFLAGS="-mod=mod", GOPROXY="off"); env.pop("GOTOOLCHAIN", None); env.pop("GOSUMDB", None)
names = sys.argv[1:] or [os.path.basename(os.path.dirname(p)) for p in sorted(glob.glob(os.path.join(VERIF, "seeded", "*", "meta.json")))]
for n in names:
    mp = os.path.join(VERIF, "seeded", n, "meta.json")
    m = json.load(open(mp))
    st = m.setdefault("confirmed_by_lead", {}).setdefault("steps", {})
    if st.get("suite_passes_with_change") is True:
        continue
    wt = "/tmp/wt-suite-%s" % n
    subprocess.run("git -C /repo worktree remove --force %s" % wt, shell=True, capture_output=True)
    subprocess.run("git -C /repo worktree add --detach %s HEAD" % wt, shell=True, capture_output=True, check=True)
    try:
        r = subprocess.run(["git", "apply", os.path.join(VERIF, "seeded", n, "patch.diff")], cwd=wt, capture_output=True, text=True)
        if r.returncode != 0:
            st["suite_passes_with_change"] = None
            st["suite_note"] = "patch no longer applies to /repo HEAD: " + r.stderr[-300:]
        else:
            t0 = time.time()
            r = subprocess.run("go test -vet=off -count=1 ./...", shell=True, cwd=wt, env=env, capture_output=True, text=True)
            st["suite_passes_with_change"] = r.returncode == 0
            st["suite_seconds"] = round(time.time() - t0)
            if r.returncode != 0:
                st["suite_tail"] = (r.stdout + r.stderr)[-1500:]
            m["what_was_run"] = [w if not w.startswith("(suite run by") else "go test -vet=off -count=1 ./... (with the change, by the lead)" for w in m.get("what_was_run", [])]
        json.dump(m, open(mp, "w"), indent=1)
        print(n, st.get("suite_passes_with_change"), st.get("suite_seconds"), flush=True)
    finally:
        subprocess.run("git -C /repo worktree remove --force %s" % wt, shell=True, capture_output=True)
