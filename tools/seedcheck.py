#!/usr/bin/env python3
"""Confirm a seeded defect and run a check against it, on private copies.

  tools/seedcheck.py <seed-out-dir> <seed-name> <CheckID> [--skip-suite]

<seed-out-dir> holds patch.diff, demonstration *_test.go file(s), meta.json (from an
independent sub-agent).  Steps (all in /tmp, removed afterwards):
  1. git worktree of /repo HEAD (+ uncommitted verif hook files), apply patch, go build ./...
  2. full `go test -count=1 ./...` with the patch (unless --skip-suite)
  3. demo with patch -> must FAIL; demo without patch -> must PASS
  4. private copy of /verif; VERIF_REPO=<worktree> bin/check <ID> quick -> expect VIOLATION (exit 1)
  5. record /verif/seeded/<seed-name>/ {patch.diff, demo, meta.json (augmented), check_output.txt}
"""
import glob
import json
import os
import shutil
import subprocess
import sys
import time

VERIF = os.path.dirname(os.path.dirname(os.path.abspath(__file__)))
REPO = "/repo"


def sh(cmd, cwd=None, env=None, timeout=7200):
    p = subprocess.run(cmd, cwd=cwd, env=env, shell=isinstance(cmd, str), stdout=subprocess.PIPE,
                       stderr=subprocess.STDOUT, text=True, errors="replace", timeout=timeout)
    return p.returncode, p.stdout


def main():
    src, name, cid = sys.argv[1], sys.argv[2], sys.argv[3]
    skip_suite = "--skip-suite" in sys.argv
    env = dict(os.environ, GOFLAGS="-mod=mod", GOPROXY="off")
    env.pop("GOTOOLCHAIN", None)
    env.pop("GOSUMDB", None)
    wt = "/tmp/wt-%s" % name
    vc = "/tmp/verif-%s" % name
    log = {"seed": name, "check": cid, "steps": {}}
    sh("git -C %s worktree remove --force %s" % (REPO, wt))
    shutil.rmtree(vc, ignore_errors=True)
    rc, out = sh("git -C %s worktree add --detach %s HEAD" % (REPO, wt))
    assert rc == 0, out
    try:
        # uncommitted hook files other people added
        rc, out = sh("git -C %s ls-files --others --exclude-standard" % REPO)
        for f in out.split():
            if os.path.basename(f).startswith("verif_hooks") and f.endswith(".go"):
                os.makedirs(os.path.dirname(os.path.join(wt, f)), exist_ok=True)
                shutil.copy(os.path.join(REPO, f), os.path.join(wt, f))
        patch = os.path.join(src, "patch.diff")
        rc, out = sh(["git", "apply", patch], cwd=wt)
        log["steps"]["apply"] = rc == 0
        assert rc == 0, "patch does not apply: " + out
        rc, out = sh("go build ./... && go build -tags verif ./...", cwd=wt, env=env)
        log["steps"]["build"] = rc == 0
        assert rc == 0, "does not build: " + out[-2000:]
        if not skip_suite:
            t0 = time.time()
            rc, out = sh("go test -vet=off -count=1 ./...", cwd=wt, env=env)
            log["steps"]["suite_passes_with_change"] = rc == 0
            log["steps"]["suite_seconds"] = round(time.time() - t0)
            if rc != 0:
                log["steps"]["suite_tail"] = out[-1500:]
        # demonstration
        demos = [f for f in glob.glob(os.path.join(src, "*_test.go"))]
        demo_dir = "."
        for a in sys.argv:
            if a.startswith("--demo-dir="):
                demo_dir = a.split("=", 1)[1]
        log["steps"]["demo_dir"] = demo_dir
        for d in demos:
            shutil.copy(d, os.path.join(wt, demo_dir, os.path.basename(d)))
        if demos:
            import re as _re
            names = sorted({n for d in demos for n in _re.findall(r"^func (Test\w+)\(", open(d).read(), _re.M)})
            runpat = "^(" + "|".join(names) + ")$" if names else "Verif|Demo|Seed"
            demo_cmd = "go test -vet=off -count=1 -run '%s' ." % runpat
            log["steps"]["demo_cmd"] = demo_cmd
            rc1, out1 = sh(demo_cmd, cwd=os.path.join(wt, demo_dir), env=env)
            log["steps"]["demo_fails_with_change"] = rc1 != 0
            sh(["git", "apply", "-R", patch], cwd=wt)
            rc2, out2 = sh(demo_cmd, cwd=os.path.join(wt, demo_dir), env=env)
            log["steps"]["demo_passes_without_change"] = rc2 == 0
            log["steps"]["demo_output_with_change_tail"] = out1[-800:]
            sh(["git", "apply", patch], cwd=wt)
            for d in demos:
                os.remove(os.path.join(wt, demo_dir, os.path.basename(d)))
        # the check, on a private copy of the framework
        rc, out = sh("rsync -a --exclude replays --exclude 'build/gocache' --exclude '.git' %s/ %s/" % (VERIF, vc))
        assert rc in (0, 24), out      # 24 = a file vanished while copying (someone else's scratch file)
        if "--wip" not in sys.argv:
            # the private copy is the COMMITTED framework: uncommitted edits (builders at work) are reverted / removed
            rc_, mod = sh("git -C %s ls-files -m" % VERIF)
            for f in mod.split("\n"):
                f = f.strip()
                if f and not f.startswith("evidence/"):
                    r2 = subprocess.run(["git", "-C", VERIF, "show", "HEAD:" + f], stdout=subprocess.PIPE)
                    if r2.returncode == 0:
                        open(os.path.join(vc, f), "wb").write(r2.stdout)
            rc_, unt = sh("git -C %s ls-files -o --exclude-standard" % VERIF)
            for f in unt.split("\n"):
                f = f.strip()
                if f and os.path.exists(os.path.join(vc, f)):
                    os.remove(os.path.join(vc, f))
                    d_ = os.path.dirname(os.path.join(vc, f))
                    while d_ != vc and os.path.isdir(d_) and not os.listdir(d_):
                        os.rmdir(d_)
                        d_ = os.path.dirname(d_)
        env2 = dict(env, VERIF_REPO=wt)
        t0 = time.time()
        rc, out = sh(["bin/check", cid, "quick"], cwd=vc, env=env2, timeout=5400)
        log["steps"]["check_exit"] = rc
        log["steps"]["check_seconds"] = round(time.time() - t0)
        viol = [l for l in out.splitlines() if l.startswith("VIOLATION")]
        log["steps"]["violation_lines"] = viol[:5]
        log["caught"] = (rc == 1 and bool(viol))
        dst = os.path.join(VERIF, "seeded", name)
        os.makedirs(dst, exist_ok=True)
        def cp(a, b):
            if os.path.abspath(a) != os.path.abspath(b):
                shutil.copy(a, b)
        cp(patch, os.path.join(dst, "patch.diff"))
        for d in demos:
            cp(d, os.path.join(dst, os.path.basename(d)))
        for extra in ("demo_howto.txt",):
            if os.path.exists(os.path.join(src, extra)):
                cp(os.path.join(src, extra), os.path.join(dst, extra))
        meta = {}
        try:
            meta = json.load(open(os.path.join(src, "meta.json")))
        except Exception:
            pass
        meta["confirmed_by_lead"] = log
        meta["what_was_run"] = ["git apply patch.diff (private worktree of /repo HEAD)", "go build ./...",
                                "go test -vet=off -count=1 ./... (with the change)" if not skip_suite else "(suite run by the seeding agent only)",
                                "demonstration with and without the change",
                                "VERIF_REPO=<worktree> bin/check %s quick (private copy of /verif)" % cid]
        json.dump(meta, open(os.path.join(dst, "meta.json"), "w"), indent=1)
        with open(os.path.join(dst, "check_output.txt"), "w") as f:
            f.write(out[-6000:])
        print(json.dumps(log, indent=1))
    finally:
        sh("git -C %s worktree remove --force %s" % (REPO, wt))
        shutil.rmtree(vc, ignore_errors=True)


if __name__ == "__main__":
    main()
