#!/bin/bash
# Re-check every compiled property file (and everything it depends on) with Coq's independent checker and
# list the axioms: tools/coqchk.sh [module ...]   (default: all Naga.Props.Cxx).  Needs the .vo files (bin/setup).
cd "$(dirname "$0")/../coq" || exit 2
mods="$@"
if [ -z "$mods" ]; then
  for f in Props/C*.v; do b=$(basename $f .v); mods="$mods Naga.Props.$b"; done
fi
echo "coqchk -silent -o -Q . Naga $mods"
/usr/bin/time -v coqchk -silent -o -Q . Naga $mods 2>&1 | tail -n 80
