#!/usr/bin/env python3
"""Regenerate the table of seeded changes (DESIGN.md section 11.1) from /verif/seeded/*/meta.json.

  tools/seedtable.py            prints the markdown table
  tools/seedtable.py --write    replaces the text between the markers in DESIGN.md
"""
import glob
import json
import os
import re
import sys

VERIF = os.path.dirname(os.path.dirname(os.path.abspath(__file__)))
BEGIN = "<!-- seedtable:begin -->"
END = "<!-- seedtable:end -->"


def one_line(s, n):
    s = re.sub(r"\s+", " ", s or "").strip()
    return s if len(s) <= n else s[:n - 1] + "…"


def table():
    rows = []
    for mp in sorted(glob.glob(os.path.join(VERIF, "seeded", "*", "meta.json"))):
        name = os.path.basename(os.path.dirname(mp))
        try:
            m = json.load(open(mp))
        except Exception:
            continue
        c = m.get("confirmed_by_lead", {})
        st = c.get("steps", {})
        how = ""
        out = os.path.join(os.path.dirname(mp), "check_output.txt")
        if os.path.exists(out):
            txt = open(out, errors="replace").read()
            i = txt.find("VIOLATION")
            if i >= 0:
                seg = txt[i:].split("\n")
                how = one_line(seg[1] if len(seg) > 1 and not seg[1].startswith(("VIOLATION", "KNOWN")) else seg[0], 160)
        rows.append((name, m.get("property") or c.get("check") or "", one_line(m.get("summary") or m.get("mechanism") or "", 230),
                     one_line(m.get("needs_to_manifest") or "", 200),
                     ("caught by `bin/check %s quick`" % c.get("check")) if c.get("caught") else "**missed**",
                     how, st))
    lines = ["| seeded change | property | what the change does | what it needs to manifest | result | first violation line |",
             "|---|---|---|---|---|---|"]
    for name, prop, summ, needs, res, how, _st in rows:
        lines.append("| `seeded/%s` | %s | %s | %s | %s | %s |" % (name, prop, summ.replace("|", "\\|"), needs.replace("|", "\\|"), res,
                                                                   how.replace("|", "\\|")))
    ncaught = sum(1 for r in rows if r[4].startswith("caught"))
    lines.append("")
    lines.append("%d seeded changes confirmed (apply, build, demonstration fails with / passes without the change), %d caught by the "
                 "registered quick check of their property, %d missed." % (len(rows), ncaught, len(rows) - ncaught))
    return "\n".join(lines)


def main():
    t = table()
    if "--write" in sys.argv:
        p = os.path.join(VERIF, "DESIGN.md")
        s = open(p).read()
        if BEGIN in s and END in s:
            s = s[:s.index(BEGIN) + len(BEGIN)] + "\n" + t + "\n" + s[s.index(END):]
        else:
            s = s.rstrip("\n") + "\n\n" + BEGIN + "\n" + t + "\n" + END + "\n"
        open(p, "w").write(s)
    else:
        print(t)


if __name__ == "__main__":
    main()
