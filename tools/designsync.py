#!/usr/bin/env python3
"""Refresh the generated parts of DESIGN.md: the list of fix commits (D8) and the seeded-change table (11.1)."""
import json, os, re, subprocess, sys
VERIF = os.path.dirname(os.path.dirname(os.path.abspath(__file__)))
p = os.path.join(VERIF, "DESIGN.md")
s = open(p).read()
log = subprocess.run(["git", "-C", "/repo", "log", "--format=%h %s"], capture_output=True, text=True).stdout.splitlines()
fixes = [l.split(" ", 1) for l in log if l.split(" ", 1)[1].startswith("fix:")]
props = {}
for l in open(os.path.join(VERIF, "known_findings.jsonl")):
    if l.startswith("{"):
        d = json.loads(l)
        if d.get("status") == "fixed":
            props.setdefault(d["commit"][:7], set()).add(d["property"])
txt = "; ".join("`%s` %s (%s)" % (h, m[4:].strip(), ", ".join(sorted(props.get(h, {"?"})))) for h, m in reversed(fixes))
a = s.index("**D8. Fix commits made in /repo**")
b = s.index("**D9.")
new = ("**D8. Fix commits made in /repo** (%d; each also recorded as `fixed:` in `known_findings.jsonl`; every one is a single "
       "unguarded commit whose message starts `fix:`, after which the complete existing test suite passes unedited), oldest first: %s.\n"
       "Everything else that was found is recorded as an open finding with its specific input (`known_findings.jsonl`), because "
       "the repair is not small or because the repository's golden files encode the defect (module-scope initialisers silently "
       "dropped or given wrong literal kinds, composite module constants emitted as `OpConstantNull` and a switch whose clauses all "
       "`break` losing its merge block in SPIR-V, `static T[N] name` in HLSL, GLSL zero-value expansion exhausting memory, "
       "evaluation order of compound assignment, ...).\n\n" % (len(fixes), txt))
s = s[:a] + new + s[b:]
open(p, "w").write(s)
subprocess.run([sys.executable, os.path.join(VERIF, "tools", "seedtable.py"), "--write"], check=True)
print("D8: %d fix commits" % len(fixes))
