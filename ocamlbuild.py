"""Extraction + OCaml build of the executable models (ocaml/<name>/driver.ml with
coq/Extract/<Name>Extract.v).  Re-extracts on every call (coqc is quick once the
development is built) and recompiles only when the extracted code changed."""
import os, sys, hashlib
sys.path.insert(0, os.path.join(os.path.dirname(os.path.abspath(__file__)), "lib"))
import vcheck

# name -> (extract .v, extracted module name, driver source relative to /verif)
# Generic tools extract `entry : json -> json` into "model.ml" and use ocaml/common/driver.ml.
GENERIC = "ocaml/common/driver.ml"
TOOLS = {
    "lex": ("Extract/LexExtract.v", "lexmodel", "ocaml/lex/driver.ml"),
    "echo": ("Extract/EchoExtract.v", "model", GENERIC),
    "dxil": ("Extract/DxilExtract.v", "model", GENERIC),
    "diag": ("Extract/DiagExtract.v", "model", GENERIC),
    "namer": ("Extract/NamerExtract.v", "model", GENERIC),
    "layout": ("Extract/LayoutExtract.v", "model", GENERIC),
    "spv": ("Extract/SpvExtract.v", "model", GENERIC),
    "overrides": ("Extract/OverridesExtract.v", "model", GENERIC),
    "fold": ("Extract/FoldExtract.v", "model", GENERIC),
    "irinfo": ("Extract/IrInfoExtract.v", "model", GENERIC),
    "irwf": ("Extract/WfExtract.v", "model", GENERIC),
    "iface": ("Extract/IfaceExtract.v", "model", GENERIC),
    "valid": ("Extract/ValidExtract.v", "model", GENERIC),
    "irrun": ("Extract/IrRunExtract.v", "model", GENERIC),
    "wgslrun": ("Extract/WgslRunExtract.v", "model", GENERIC),
    "glslrun": ("Extract/GlslRunExtract.v", "model", GENERIC),
    "mslrun": ("Extract/MslRunExtract.v", "model", GENERIC),
    "passmodel": ("Extract/PassExtract.v", "model", GENERIC),
    "inlinemodel": ("Extract/InlineExtract.v", "model", GENERIC),
    "hlslrun": ("Extract/HlslRunExtract.v", "model", GENERIC),
    "spvrun": ("Extract/SpvRunExtract.v", "model", GENERIC),
    "parsemodel": ("Extract/ParseExtract.v", "model", GENERIC),
    "wgslcheck": ("Extract/WgslCheckExtract.v", "model", GENERIC),
    "cfshape": ("Extract/CfShapeExtract.v", "model", GENERIC),
}


def build(name):
    ev, mod, driver = TOOLS[name]
    pkgs = []
    d = os.path.join(vcheck.BUILD, "ocaml", name)
    os.makedirs(d, exist_ok=True)
    exe = os.path.join(vcheck.BUILD, "bin", name + "_model")
    with vcheck.Lock("ocaml_" + name):
        rc, so, se = vcheck.sh(["coqc", "-Q", vcheck.COQ, "Naga", "-w", "-extraction-opaque-accessed,-extraction",
                                os.path.join(vcheck.COQ, ev)], cwd=d, timeout=900)
        if rc != 0:
            raise RuntimeError("extraction of %s failed:\n%s" % (name, (so + se)[-3000:]))
        for ext in (".vo", ".vok", ".vos", ".glob"):
            try:
                os.remove(os.path.join(vcheck.COQ, ev[:-2] + ext))
            except FileNotFoundError:
                pass
        srcs = [os.path.join(d, mod + ".mli"), os.path.join(d, mod + ".ml"), os.path.join(vcheck.VERIF, driver)]
        h = hashlib.sha256()
        for p in srcs:
            with open(p, "rb") as f:
                h.update(f.read())
        stamp = os.path.join(d, "stamp")
        if os.path.exists(exe) and os.path.exists(stamp) and open(stamp).read() == h.hexdigest():
            return exe
        with open(srcs[2]) as f, open(os.path.join(d, "driver.ml"), "w") as g:
            g.write(f.read())
        cmd = ["ocamlfind", "ocamlopt", "-O2" if False else "-inline", "50", "-w", "-a"]
        if pkgs:
            cmd += ["-package", ",".join(pkgs), "-linkpkg"]
        cmd += [mod + ".mli", mod + ".ml", "driver.ml", "-o", exe]
        rc, so, se = vcheck.sh(cmd, cwd=d, timeout=900)
        if rc != 0:
            raise RuntimeError("ocaml build of %s failed:\n%s" % (name, (so + se)[-3000:]))
        with open(stamp, "w") as f:
            f.write(h.hexdigest())
        return exe


def build_all():
    for n in TOOLS:
        build(n)


if __name__ == "__main__":
    for n in (sys.argv[1:] or TOOLS):
        print(build(n))
