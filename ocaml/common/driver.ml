(* Generic driver for every extracted Coq tool: reads one JSON value per line
   from stdin, applies Model.entry : json -> json, prints the result as one
   JSON line.  Integers of any size are supported (decimal <-> Coq Z). *)
open Model

(* ---- Coq numbers <-> decimal strings (no overflow: works digit by digit) ---- *)
let rec pos_succ = function XH -> XO XH | XO p -> XI p | XI p -> XO (pos_succ p)
let rec pos_add_int p n = if n = 0 then p else pos_add_int (pos_succ p) (n - 1)
let pos_mul10 p = (* 10p = 8p + 2p *)
  let rec add a b = match a, b with
    | XH, XH -> XO XH | XH, XO q -> XI q | XH, XI q -> XO (pos_succ q)
    | XO p, XH -> XI p | XI p, XH -> XO (pos_succ p)
    | XO p, XO q -> XO (add p q) | XO p, XI q -> XI (add p q)
    | XI p, XO q -> XI (add p q) | XI p, XI q -> XO (addc p q)
  and addc a b = match a, b with
    | XH, XH -> XI XH | XH, XO q -> XO (pos_succ q) | XH, XI q -> XI (pos_succ q)
    | XO p, XH -> XO (pos_succ p) | XI p, XH -> XI (pos_succ p)
    | XO p, XO q -> XI (add p q) | XO p, XI q -> XO (addc p q)
    | XI p, XO q -> XO (addc p q) | XI p, XI q -> XI (addc p q)
  in add (XO (XO (XO p))) (XO p)
let z_of_decimal (s : String.t) : z =
  let neg = String.length s > 0 && s.[0] = '-' in
  let start = if neg then 1 else 0 in
  let acc = ref None in
  for i = start to String.length s - 1 do
    let d = Char.code s.[i] - 48 in
    if d < 0 || d > 9 then failwith ("bad number " ^ s);
    acc := (match !acc with
      | None -> if d = 0 then None else Some (pos_add_int XH (d - 1))
      | Some p -> let p10 = pos_mul10 p in Some (if d = 0 then p10 else pos_add_int p10 d))
  done;
  match !acc with None -> Z0 | Some p -> if neg then Zneg p else Zpos p

(* positive -> decimal string by repeated division by 10 on a bit list *)
let decimal_of_pos (p : positive) : String.t =
  let rec bits p acc = match p with XH -> true :: acc | XO q -> bits q (false :: acc) | XI q -> bits q (true :: acc) in
  let bl = bits p [] in (* msb first *)
  (* digits: base-10 little endian list, double-and-add *)
  let digits = ref [0] in
  List.iter (fun b ->
    let carry = ref (if b then 1 else 0) in
    digits := List.map (fun d -> let v = d * 2 + !carry in carry := v / 10; v mod 10) !digits;
    if !carry > 0 then digits := !digits @ [!carry]) bl;
  String.concat "" (List.rev_map string_of_int !digits)
let decimal_of_z = function Z0 -> "0" | Zpos p -> decimal_of_pos p | Zneg p -> "-" ^ decimal_of_pos p

(* ---- Coq strings ---- *)
let ascii_of_char c =
  let n = Char.code c in
  Ascii (n land 1 <> 0, n land 2 <> 0, n land 4 <> 0, n land 8 <> 0, n land 16 <> 0, n land 32 <> 0, n land 64 <> 0, n land 128 <> 0)
let char_of_ascii (Ascii (a, b, c, d, e, f, g, h)) =
  let bit x k = if x then 1 lsl k else 0 in
  Char.chr (bit a 0 + bit b 1 + bit c 2 + bit d 3 + bit e 4 + bit f 5 + bit g 6 + bit h 7)
let coq_string (s : String.t) =
  let r = ref EmptyString in
  for i = String.length s - 1 downto 0 do r := String (ascii_of_char s.[i], !r) done; !r
let ocaml_string cs =
  let b = Buffer.create 16 in
  let rec go = function EmptyString -> () | String (c, r) -> Buffer.add_char b (char_of_ascii c); go r in
  go cs; Buffer.contents b

(* ---- JSON reader (bytes in, strings kept as UTF-8 bytes; \uXXXX encoded to UTF-8) ---- *)
exception Parse of String.t
let parse (s : String.t) : json =
  let n = String.length s in
  let i = ref 0 in
  let peek () = if !i < n then s.[!i] else '\000' in
  let rec ws () = if !i < n && (s.[!i] = ' ' || s.[!i] = '\n' || s.[!i] = '\t' || s.[!i] = '\r') then (incr i; ws ()) in
  let expect c = if peek () = c then incr i else raise (Parse (Printf.sprintf "expected %c at %d" c !i)) in
  let add_utf8 b cp =
    if cp < 0x80 then Buffer.add_char b (Char.chr cp)
    else if cp < 0x800 then (Buffer.add_char b (Char.chr (0xC0 lor (cp lsr 6))); Buffer.add_char b (Char.chr (0x80 lor (cp land 0x3F))))
    else if cp < 0x10000 then (Buffer.add_char b (Char.chr (0xE0 lor (cp lsr 12))); Buffer.add_char b (Char.chr (0x80 lor ((cp lsr 6) land 0x3F))); Buffer.add_char b (Char.chr (0x80 lor (cp land 0x3F))))
    else (Buffer.add_char b (Char.chr (0xF0 lor (cp lsr 18))); Buffer.add_char b (Char.chr (0x80 lor ((cp lsr 12) land 0x3F))); Buffer.add_char b (Char.chr (0x80 lor ((cp lsr 6) land 0x3F))); Buffer.add_char b (Char.chr (0x80 lor (cp land 0x3F)))) in
  let str () =
    expect '"';
    let b = Buffer.create 16 in
    let rec go () =
      let c = peek () in
      if !i >= n then raise (Parse "unterminated string");
      incr i;
      if c = '"' then ()
      else if c = '\\' then begin
        let e = peek () in incr i;
        (match e with
         | 'n' -> Buffer.add_char b '\n' | 't' -> Buffer.add_char b '\t' | 'r' -> Buffer.add_char b '\r'
         | 'b' -> Buffer.add_char b '\b' | 'f' -> Buffer.add_char b '\012'
         | 'u' ->
           let hex k = int_of_string ("0x" ^ String.sub s k 4) in
           let cp = hex !i in i := !i + 4;
           let cp = if cp >= 0xD800 && cp < 0xDC00 && !i + 6 <= n && s.[!i] = '\\' && s.[!i+1] = 'u' then begin
               let lo = hex (!i + 2) in i := !i + 6; 0x10000 + ((cp - 0xD800) lsl 10) + (lo - 0xDC00) end else cp in
           add_utf8 b cp
         | c -> Buffer.add_char b c);
        go () end
      else (Buffer.add_char b c; go ()) in
    go (); Buffer.contents b in
  let rec value () : json =
    ws ();
    match peek () with
    | '{' -> incr i; ws ();
      if peek () = '}' then (incr i; JObj []) else begin
        let rec fields acc =
          ws (); let k = str () in ws (); expect ':'; let v = value () in ws ();
          let acc = (coq_string k, v) :: acc in
          if peek () = ',' then (incr i; fields acc) else (expect '}'; List.rev acc) in
        JObj (fields []) end
    | '[' -> incr i; ws ();
      if peek () = ']' then (incr i; JArr []) else begin
        let rec elems acc =
          let v = value () in ws ();
          if peek () = ',' then (incr i; elems (v :: acc)) else (expect ']'; List.rev (v :: acc)) in
        JArr (elems []) end
    | '"' -> JStr (coq_string (str ()))
    | 't' -> i := !i + 4; JBool true
    | 'f' -> i := !i + 5; JBool false
    | 'n' -> i := !i + 4; JNull
    | _ ->
      let st = !i in
      while !i < n && (match s.[!i] with '0'..'9' | '-' | '+' | '.' | 'e' | 'E' -> true | _ -> false) do incr i done;
      let t = String.sub s st (!i - st) in
      if t = "" then raise (Parse (Printf.sprintf "unexpected char at %d" st));
      if String.contains t '.' || String.contains t 'e' || String.contains t 'E' then
        raise (Parse ("non-integer number " ^ t ^ " (send floats as bit patterns)"));
      JNum (z_of_decimal t) in
  let v = value () in ws (); v

let rec print (b : Buffer.t) (j : json) : unit =
  match j with
  | JNull -> Buffer.add_string b "null"
  | JBool x -> Buffer.add_string b (if x then "true" else "false")
  | JNum z -> Buffer.add_string b (decimal_of_z z)
  | JStr s ->
    Buffer.add_char b '"';
    String.iter (fun c -> match c with
      | '"' -> Buffer.add_string b "\\\"" | '\\' -> Buffer.add_string b "\\\\"
      | '\n' -> Buffer.add_string b "\\n" | '\r' -> Buffer.add_string b "\\r" | '\t' -> Buffer.add_string b "\\t"
      | c when Char.code c < 32 -> Buffer.add_string b (Printf.sprintf "\\u%04x" (Char.code c))
      | c -> Buffer.add_char b c) (ocaml_string s);
    Buffer.add_char b '"'
  | JArr l -> Buffer.add_char b '['; List.iteri (fun k x -> if k > 0 then Buffer.add_char b ','; print b x) l; Buffer.add_char b ']'
  | JObj fs -> Buffer.add_char b '{';
    List.iteri (fun k (key, x) -> if k > 0 then Buffer.add_char b ','; print b (JStr key); Buffer.add_char b ':'; print b x) fs;
    Buffer.add_char b '}'

let () =
  try
    while true do
      let line = input_line stdin in
      if String.trim line <> "" then begin
        let out = Buffer.create 256 in
        (try print out (entry (parse line))
         with Parse m -> Buffer.clear out; Buffer.add_string out ("{\"driver_error\":\"parse: " ^ String.escaped m ^ "\"}")
            | Stack_overflow -> Buffer.clear out; Buffer.add_string out "{\"driver_error\":\"stack overflow\"}");
        print_string (Buffer.contents out); print_newline ()
      end
    done
  with End_of_file -> ()
