(* Reads one source per line as "cp:sz cp:sz ..." (possibly empty line), runs the
   extracted lexer model, prints one line: "T kind:line:col:cp,cp,.. ... | open" *)
open Lexmodel

let rec pos_of_int n = if n = 1 then XH else if n land 1 = 0 then XO (pos_of_int (n lsr 1)) else XI (pos_of_int (n lsr 1))
let z_of_int n = if n = 0 then Z0 else if n > 0 then Zpos (pos_of_int n) else Zneg (pos_of_int (-n))
let rec int_of_pos = function XH -> 1 | XO p -> 2 * int_of_pos p | XI p -> 2 * int_of_pos p + 1
let int_of_z = function Z0 -> 0 | Zpos p -> int_of_pos p | Zneg p -> - (int_of_pos p)

let () =
  try
    while true do
      let line = input_line stdin in
      let parts = List.filter (fun s -> s <> "") (String.split_on_char ' ' line) in
      let s = List.map (fun p -> match String.split_on_char ':' p with
        | [a; b] -> { cp = z_of_int (int_of_string a); sz = pos_of_int (int_of_string b) }
        | _ -> failwith "bad rune") parts in
      (match lex_go s with
       | None -> print_string "OUTOFFUEL"
       | Some (toks, opn) ->
         List.iter (fun t ->
           Printf.printf "%d:%d:%d:%s " (int_of_z t.tkind) (int_of_z t.tline) (int_of_z t.tcol)
             (String.concat "," (List.map (fun c -> string_of_int (int_of_z c.cp)) t.tlex))) toks;
         Printf.printf "| %b" opn);
      print_newline ()
    done
  with End_of_file -> ()
