#!/usr/bin/env python3
"""Assembles MANIFEST.json from checks/*.manifest.json fragments (one per property)."""
import json, os, glob
V = os.path.dirname(os.path.abspath(__file__))
checks = []
for f in sorted(glob.glob(os.path.join(V, "checks", "c*.manifest.json"))):
    c = json.load(open(f))
    pid = c["property_id"]
    c.setdefault("quick_cmd", "bin/check %s quick" % pid)
    c.setdefault("thorough_cmd", "bin/check %s thorough" % pid)
    c.setdefault("evidence_file", "evidence/%s.json" % pid)
    c.setdefault("replay_cmd_template", "bin/check %s --replay {path}" % pid)
    c.setdefault("engine", "coq-proof+correspondence")
    checks.append(c)
claimed = {c["property_id"] for c in checks}
props = [json.loads(l) for l in open(os.path.join(V, "properties.jsonl"))]
na_file = os.path.join(V, "checks", "not_applicable.json")
na_reasons = json.load(open(na_file)) if os.path.exists(na_file) else {}
na = [{"property_id": p["id"], "reason": na_reasons.get(p["id"], "no check registered yet in this snapshot of /verif (work in progress; not a claim that the technique cannot apply)")}
      for p in props if p["id"] not in claimed]
m = {
    "version": 1,
    "setup_cmd": "bin/setup",
    "hooks": {
        "guard": "verif",
        "enable": "go build -tags verif (harness module in /verif/harness with `replace github.com/gogpu/naga => /repo`)",
        "baseline_off_cmd": "cd /repo && GOFLAGS=-mod=mod GOPROXY=off go test -vet=off -count=1 -timeout 25m ./...",
        "source_commits": json.load(open(os.path.join(V, "checks", "hook_commits.json"))),
        "add_only": True,
    },
    "engines": [{"name": "coq-proof+correspondence", "path": "bin/check",
                 "serves_properties": sorted(claimed),
                 "kind_free_text": "Coq 8.16.1 theorems over Gallina models (coq/), models tied to /repo by regenerated tables (gen.py + harness/cmd/goextract -> coq/Gen) and by correspondence runs of the extracted models against the implementation (harness/cmd/nagadrive, ocaml/); failing-input search on the implementation when a tie breaks"}],
    "checks": checks,
    "not_applicable": na,
    "notes": "See DESIGN.md. Fix commits in /repo are listed in known_findings.jsonl.",
}
json.dump(m, open(os.path.join(V, "MANIFEST.json"), "w"), indent=1)
print("MANIFEST.json:", len(checks), "checks,", len(na), "not yet claimed")
